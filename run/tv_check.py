"""C19: translation validation of the real synthesizer, per corpus design.

For every module of every corpus design the REAL parser, analyzer and
synthesizer are run (tvdump) and z3 decides, for ALL inputs and ALL states,
  (1) netlist == word-level RTL terms (one-step induction; bounded unrolling from
      reset when state cannot be matched or to confirm a counterexample),
  (2) netlist under every other configuration (cell library, RAM inference
      threshold, restructure on/off) == netlist under the default configuration.
A model is replayed natively (repository interpreter vs gate evaluation of the
freshly synthesized netlist) before it is reported.
"""
import collections
import concurrent.futures as cf
import json
import os
import subprocess
import sys
import time

ROOT = "/verif"
sys.path.insert(0, os.path.join(ROOT, "tv"))
import corpus as corpus_mod  # noqa: E402

TVDUMP_DIR = os.path.join(ROOT, "tv", "tvdump")
TARGET = os.path.join(ROOT, ".target")
TVDUMP = os.path.join(TARGET, "tvdump", "debug", "tvdump")
PY = sys.executable


def log(*a):
    print(*a, file=sys.stderr, flush=True)


def build_tvdump():
    import shutil
    shutil.copy("/repo/Cargo.lock", os.path.join(TVDUMP_DIR, "Cargo.lock"))
    env = dict(os.environ, CARGO_NET_OFFLINE="true")
    p = subprocess.run(["cargo", "build", "--offline", "--target-dir", os.path.join(TARGET, "tvdump")],
                       cwd=TVDUMP_DIR, env=env, stdout=subprocess.PIPE, stderr=subprocess.STDOUT, text=True)
    if p.returncode != 0:
        log(p.stdout[-3000:])
        return False
    return True


def run_one(item, tier, work, cap):
    label, path = item
    try:
        p = subprocess.run([PY, os.path.join(ROOT, "tv", "worker.py"), label, path, tier, work],
                           capture_output=True, text=True, timeout=cap)
    except subprocess.TimeoutExpired:
        return dict(label=label, path=path, error=f"worker timeout ({cap}s)", modules=[])
    if p.returncode != 0 or not p.stdout.strip():
        return dict(label=label, path=path, error="worker failed: " + p.stderr[-300:], modules=[])
    try:
        return json.loads(p.stdout.strip().splitlines()[-1])
    except Exception as e:  # noqa: BLE001
        return dict(label=label, path=path, error=f"bad worker output: {e}", modules=[])


def replay(path, top, diff, work):
    stim = dict(stimulus=diff["stimulus"], clock=diff.get("clock"), cfg=diff.get("cfg", {}))
    sp = os.path.join(work, f"stim_{os.getpid()}_{abs(hash((path, top))) % 10**8}.json")
    json.dump(stim, open(sp, "w"))
    try:
        p = subprocess.run([TVDUMP, "replay", path, top, sp], capture_output=True, text=True, timeout=300)
        out = json.loads(p.stdout.strip().splitlines()[-1])
    except Exception as e:  # noqa: BLE001
        out = dict(error=f"replay failed: {e}")
    return out, sp


def _src(path):
    try:
        return open(path).read()
    except OSError:
        return None


def load_known():
    p = os.path.join(ROOT, "known_findings.json")
    return json.load(open(p)) if os.path.exists(p) else {"findings": [], "fixed": []}


def run_c19(tier, seed, write_evidence, only=None):
    t0 = time.time()
    work = os.path.join(TARGET, "tvwork")
    os.makedirs(work, exist_ok=True)
    if not build_tvdump():
        log("tvdump did not build")
        return 2
    items = corpus_mod.corpus(os.path.join(work, "snips"), seed)
    if only:
        items = [i for i in items if any(o in i[0] for o in only)]
    cap = 150 if tier == "quick" else 900
    jobs = int(os.environ.get("VERIF_JOBS", "16"))
    results = []
    with cf.ThreadPoolExecutor(max_workers=jobs) as ex:
        futs = [ex.submit(run_one, it, tier, work, cap) for it in items]
        for f in futs:
            results.append(f.result())
    stats = collections.Counter()
    reasons = collections.Counter()
    diffs, inconc, samples = [], [], []
    queries = 0
    solver_s = 0.0
    for r in results:
        if r.get("error"):
            key = "front_end_error" if r["error"].startswith("front end") else "worker_error"
            stats[key] += 1
            if key == "worker_error":
                inconc.append((r["label"], "-", r["error"][:200]))
            continue
        for m in r["modules"]:
            rv = m["rtl"] or {}
            v = rv.get("verdict", "?")
            stats["rtl_" + v] += 1
            queries += rv.get("queries", 0)
            solver_s += rv.get("secs", 0) or 0
            if v in ("rtl_unsupported", "miter_unsupported", "skipped", "rejected_by_synthesizer"):
                reasons[(v, rv.get("why", "")[:70])] += 1
            if v == "differs":
                diffs.append((r, m, rv, "rtl"))
            if v == "inconclusive":
                inconc.append((r["label"], m["top"], rv.get("why", "")))
            for c in m["cfg"]:
                stats["cfg_" + c["verdict"]] += 1
                queries += c.get("queries", 0)
                solver_s += c.get("secs", 0) or 0
                if c["verdict"] in ("differs", "differs_from_some_state"):
                    v2 = c.get("vs_rtl") or {}
                    if v2.get("verdict") == "differs":
                        diffs.append((r, m, v2, "rtl"))
                    elif v2.get("verdict", "").startswith("equal"):
                        stats["cfg_equal_via_rtl"] += 1
                    else:
                        diffs.append((r, m, c, "cfg"))
            if len(samples) < 12 and v.startswith("equal"):
                samples.append(dict(design=r["label"], top=m["top"], cells=m.get("cells"), ffs=m.get("ffs"),
                                    rams=m.get("rams"), rtl_verdict=v, obligations=rv.get("obligations"),
                                    configs_equal=sum(1 for c in m["cfg"] if c["verdict"] == "equal_inductive")))
    # --- disagreements: replay natively
    known = load_known()
    violations, known_lines, unconfirmed = [], [], []
    checked = 0
    for (r, m, d, kind) in diffs:
        checked += 1
        if kind == "rtl" and d.get("kind") == "trace":
            out, sp = replay(r["path"], m["top"], d, work)
            if out.get("reproduced"):
                key = f"{r['label']}::{m['top']}"
                kf = next((f for f in known.get("findings", []) if f["property"] == "C19" and f.get("design") == key), None)
                os.makedirs(os.path.join(ROOT, "evidence", "replay"), exist_ok=True)
                rp = os.path.join(ROOT, "evidence", "replay",
                                  f"C19-{r['label'].replace('::', '_').replace('#', '_')}-{m['top']}.json")
                json.dump(dict(property="C19", design=r["label"], path=r["path"], source=_src(r["path"]), top=m["top"],
                               stimulus=d["stimulus"], clock=d.get("clock"), cfg=d.get("cfg"),
                               solver=dict(cycle=d["cycle"], port=d["port"], rtl=d["rtl_value"], netlist=d["netlist_value"]),
                               native=out.get("first_diff"),
                               replay_cmd=f"{TVDUMP} replay {r['path']} {m['top']} <this file>"), open(rp, "w"), indent=1)
                if kf:
                    known_lines.append(f"KNOWN-FINDING: property=C19 {kf['what']} ({key})")
                elif not any(v[1] == rp for v in violations):
                    violations.append((key, rp, out.get("first_diff")))
            else:
                unconfirmed.append((r["label"], m["top"], "solver trace did not reproduce natively: " + json.dumps(out)[:200]))
        elif kind == "rtl":
            # read directly from the netlist the real synthesizer produced (no encoding involved)
            key = f"{r['label']}::{m['top']}"
            os.makedirs(os.path.join(ROOT, "evidence", "replay"), exist_ok=True)
            rp = os.path.join(ROOT, "evidence", "replay",
                              f"C19-{r['label'].replace('::', '_').replace('#', '_')}-{m['top']}-structure.json")
            json.dump(dict(property="C19", design=r["label"], path=r["path"], source=_src(r["path"]), top=m["top"], cfg=d.get("cfg"),
                           structural_difference=d.get("detail")), open(rp, "w"), indent=1)
            kf = next((f for f in known.get("findings", []) if f["property"] == "C19" and f.get("design") == key), None)
            if kf:
                known_lines.append(f"KNOWN-FINDING: property=C19 {kf['what']} ({key})")
            else:
                violations.append((key, rp, d.get("detail")))
        else:
            # configuration miter from an arbitrary state: not replayable by itself; the RTL miter of the
            # same design decides reachable behaviour.  Reported as inconclusive, never as a pass.
            unconfirmed.append((r["label"], m["top"], f"configuration {d.get('cfg')} differs from some state at {d.get('where')}"))
    programs = sum(v for k, v in stats.items() if k in ("rtl_equal_inductive", "rtl_equal_bounded", "rtl_differs"))
    cfg_pairs = sum(v for k, v in stats.items() if k.startswith("cfg_equal"))
    floor = json.load(open(os.path.join(ROOT, "tv", "floor.json"))) if os.path.exists(os.path.join(ROOT, "tv", "floor.json")) else {}
    fl = floor.get(tier, {})
    vacuous = []
    if not only:
        if programs < fl.get("rtl_conclusive", 0):
            vacuous.append(f"only {programs} designs conclusive against RTL terms (floor {fl.get('rtl_conclusive')})")
        if cfg_pairs < fl.get("cfg_equal", 0):
            vacuous.append(f"only {cfg_pairs} configuration pairs proved (floor {fl.get('cfg_equal')})")
    coverage = dict(
        programs=max(programs, 0), disagreements_checked=checked,
        samples=samples or [dict(note="no design reached a verdict")],
        technique="translation validation: netlists and RTL terms produced by the real pipeline, miters decided by z3",
        designs_in_corpus=len(items), verdicts=dict(stats),
        configuration_pairs_proved_equal=cfg_pairs,
        not_covered=[dict(kind=k[0], why=k[1], modules=v) for k, v in reasons.most_common(40)],
        inconclusive=[dict(design=a, top=b, why=c) for a, b, c in (inconc + unconfirmed)][:60],
        known_findings_hit=known_lines,
        queries_discharged=queries, solver_time_s=round(solver_s, 1),
        functions_encoded=["veryl_synthesizer::build_gate_ir_with_library (whole conv pipeline: expression/statement "
                           "lowering, arith, balance, prefix, counter, postpass, ram inference, worklist simplification)",
                           "veryl_parser::Parser::parse, veryl_analyzer::Analyzer passes (run concretely per design)"],
        bounds=f"programs = the corpus ({len(items)} files: /verif/tv/corpus, snippets of synthesizer/tests/integration.rs, "
               f"/repo/testcases/veryl); per design every input and every state valuation (one-step induction) or "
               f"{3 if tier == 'quick' else 6} cycles after reset when state cannot be matched; netlists up to "
               f"{20000 if tier == 'quick' else 200000} cells; z3 timeout {15 if tier == 'quick' else 120}s per query",
        outside_claim="designs outside the RTL-term subset (instances, functions, struct/array literals, multi-clock, "
                      "4-state literals, > 4096 state bits) are only covered by the configuration miter; division by "
                      "zero and out-of-range dynamic indices are assumed away; 4-state behaviour",
    )
    assumptions = [
        "gate semantics: the 22-entry CellKind table in tv/miter.py (= the doc comments of synthesizer/src/ir.rs)",
        "flip-flop: next = reset_active ? reset_value : D at its clock edge; RAM: asynchronous read, write ports "
        "applied in order with enable/mask",
        "RTL reference semantics: tv/tvdump/src/rtl.rs (2-state, IEEE 1800 operator semantics at the analyzer's "
        "context widths); the same select/index resolution helpers of the analyzer are used on both sides",
        "dynamic indices in range, divisors non-zero (recorded per design as solver assumptions)",
    ]
    write_evidence("C19", tier, seed, "translation_validation", coverage, assumptions, time.time() - t0, len(violations))
    for line in known_lines:
        print(line)
    if violations:
        for (k, rp, fd) in violations:
            print(f"VIOLATION property=C19 replay={rp}")
            log(f"  {k}: {fd}")
        return 1
    nonrepro = [u for u in unconfirmed if "did not reproduce" in u[2]]
    if vacuous or nonrepro:
        for v in vacuous:
            log("INCONCLUSIVE C19:", v)
        for a, b, c in nonrepro:
            log(f"INCONCLUSIVE C19 {a} {b}: {c} (encoder error, not a verdict)")
        return 2
    for a, b, c in unconfirmed[:20]:
        log(f"NOTE C19 {a} {b}: {c}")
    print(f"OK property=C19 tier={tier} designs_conclusive={programs} cfg_pairs_equal={cfg_pairs} "
          f"queries={queries} solver_s={solver_s:.1f}")
    log(json.dumps(dict(stats)))
    return 0


# ---------------------------------------------------------------------------------------------
# C21 (b): rewrite + technology mapping of the real `aig` passes, per corpus design
# ---------------------------------------------------------------------------------------------
TVAIG_DIR = os.path.join(ROOT, "tv", "tvaig")
TVAIG = os.path.join(TARGET, "tvaig", "debug", "tvaig")


def build_tvaig():
    import shutil
    shutil.copy("/repo/Cargo.lock", os.path.join(TVAIG_DIR, "Cargo.lock"))
    env = dict(os.environ, CARGO_NET_OFFLINE="true")
    p = subprocess.run(["cargo", "build", "--offline", "--target-dir", os.path.join(TARGET, "tvaig")],
                       cwd=TVAIG_DIR, env=env, stdout=subprocess.PIPE, stderr=subprocess.STDOUT, text=True)
    if p.returncode != 0:
        log(p.stdout[-3000:])
        return False
    return True


def run_aig_one(item, tier, work, cap):
    label, path = item
    try:
        p = subprocess.run([PY, os.path.join(ROOT, "tv", "aig_worker.py"), label, path, tier, work],
                           capture_output=True, text=True, timeout=cap)
        return json.loads(p.stdout.strip().splitlines()[-1])
    except Exception as e:  # noqa: BLE001
        return dict(label=label, path=path, error=f"worker failed: {e}", modules=[])


def run_c21_tv(tier, seed, only=None):
    """returns (rc, coverage-dict).  rc: 0 ok, 1 violation (lines printed), 2 inconclusive."""
    t0 = time.time()
    work = os.path.join(TARGET, "tvwork")
    os.makedirs(work, exist_ok=True)
    if not build_tvaig():
        return 2, dict(aig_tv="tvaig (synthesizer built with --features aig) did not build")
    items = [i for i in corpus_mod.corpus(os.path.join(work, "snips"), seed)
             if tier == "thorough" or not i[0].startswith("testcases::")]
    if only:
        items = [i for i in items if any(o in i[0] for o in only)]
    cap = 150 if tier == "quick" else 900
    jobs = int(os.environ.get("VERIF_JOBS", "16"))
    with cf.ThreadPoolExecutor(max_workers=jobs) as ex:
        results = list(ex.map(lambda it: run_aig_one(it, tier, work, cap), items))
    stats = collections.Counter()
    diffs, samples = [], []
    queries = 0
    for r in results:
        if r.get("error"):
            stats["front_end_or_worker_error"] += 1
            continue
        for m in r["modules"]:
            if m.get("skip"):
                stats["skipped"] += 1
                continue
            for tag in ("rewrite", "rewrite_techmap", "roundtrip"):
                v = m[tag]
                stats[f"{tag}_{v['verdict']}"] += 1
                queries += v.get("queries", 0)
                if v["verdict"].startswith("differs"):
                    diffs.append((r, m, tag, v))
            if len(samples) < 8:
                samples.append(dict(design=r["label"], top=m["top"], cells=m.get("cells"), ands=m.get("ands"),
                                    ands_after_rewrite=m.get("ands_rewritten"),
                                    rewrite=m["rewrite"]["verdict"], rewrite_techmap=m["rewrite_techmap"]["verdict"]))
    known = load_known()
    violations, known_lines = [], []
    for (r, m, tag, v) in diffs:
        key = f"{r['label']}::{m['top']}::{tag}"
        kf = next((f for f in known.get("findings", []) if f["property"] == "C21" and f.get("design") == key), None)
        if kf:
            known_lines.append(f"KNOWN-FINDING: property=C21 {kf['what']} ({key})")
            continue
        # replay: re-dump with the real passes and evaluate both objects natively on the model
        rp = os.path.join(ROOT, "evidence", "replay",
                          f"C21-{r['label'].replace('::', '_').replace('#', '_')}-{m['top']}-{tag}.json")
        os.makedirs(os.path.dirname(rp), exist_ok=True)
        ok = native_aig_replay(r["path"], m["top"], tag, v, work)
        json.dump(dict(property="C21", design=r["label"], path=r["path"], source=_src(r["path"]), top=m["top"], comparison=tag,
                       solver=v, native_reproduced=ok), open(rp, "w"), indent=1, default=str)
        if ok:
            violations.append((key, rp))
        else:
            stats["unreproduced"] += 1
    cov = dict(aig_tv=dict(designs=len(items), verdicts=dict(stats), queries_discharged=queries,
                           samples=samples, wall_s=round(time.time() - t0, 1),
                           functions_encoded=["veryl_synthesizer::aig::convert::aigify", "aig::rewrite::rewrite",
                                              "aig::techmap::aig_to_cells_techmap", "aig::convert::aig_to_cells",
                                              "aig::npn4::{npn_canonical, lookup_canonical, transform_pattern} as used by rewrite"],
                           bound="programs = the corpus (generated designs, /verif/tv/corpus, integration.rs snippets"
                                 + (", /repo/testcases/veryl" if tier == "thorough" else "") + "); every input/state valuation per design"))
    for line in known_lines:
        print(line)
    if violations:
        for (k, rp) in violations:
            print(f"VIOLATION property=C21 replay={rp}")
        return 1, cov
    proved = stats.get("rewrite_equal_inductive", 0)
    floor = 250 if not only else 0
    if stats.get("unreproduced") or proved < floor:
        log(f"INCONCLUSIVE C21 aig part: {dict(stats)} (floor {floor})")
        return 2, cov
    print(f"OK property=C21 aig-passes designs={proved} queries={queries}")
    return 0, cov


def native_aig_replay(path, top, tag, v, work):
    """Evaluate the two dumped objects (produced by the real passes) on the solver's assignment, natively."""
    out = os.path.join(work, f"aigreplay_{os.getpid()}.json")
    p = subprocess.run([TVAIG, path, out], capture_output=True, text=True, timeout=600)
    if p.returncode != 0:
        return False
    d = json.load(open(out))
    mod = next((m for m in d["modules"] if m["top"] == top and m["ok"]), None)
    if not mod:
        return False
    x = mod["dump"]
    if tag == "rewrite":
        asg = {int(k[3:]): bool(b) for k, b in v.get("inputs", {}).items() if k.startswith("net")}

        def sinks(a):
            val = {}
            for i, n in enumerate(a["nodes"]):
                if n["k"] == "const":
                    val[i] = False
                elif n["k"] == "input":
                    val[i] = asg.get(n["net"], False)
                else:
                    val[i] = (val[n["a"][0]] ^ n["a"][1]) and (val[n["b"][0]] ^ n["b"][1])
            return [val[s["e"][0]] ^ s["e"][1] for s in a["sinks"]]
        return sinks(x["a1"]) != sinks(x["a2"])
    # netlist pair: evaluate with the Python gate evaluator on inputs/state of the model
    ins, st = v.get("inputs", {}), v.get("state", {})
    return eval_netlist_pair(x["g"], x["g2" if tag == "rewrite_techmap" else "g3"], ins, st)


def eval_netlist_pair(a, b, ins, st):
    def run(nl):
        val = {}
        port_bit = {}
        for p in nl["ports"]:
            if p["dir"] == "input":
                for i, n in enumerate(p["nets"]):
                    port_bit[n] = (p["name"], i)
        import sys as _s
        _s.setrecursionlimit(100000)

        def net(n):
            if n in val:
                return val[n]
            d = nl["nets"][n]["d"]
            k = d["k"]
            if k == "const":
                r = bool(d["v"])
            elif k == "input":
                nm, i = port_bit[n]
                r = bool((int(ins.get(nm, 0)) >> i) & 1)
            elif k == "ffq":
                o = nl["ffs"][d["i"]]["origin"]
                r = bool((int(st.get(o[0], 0)) >> o[1]) & 1) if o else False
            elif k == "cell":
                c = nl["cells"][d["i"]]
                xs = [net(i) for i in c["in"]]
                r = CELL_PY[c["kind"]](xs)
            else:
                r = False
            val[n] = r
            return r
        outs = [net(n) for p in nl["ports"] if p["dir"] == "output" for n in p["nets"]]
        ds = [net(f["d"]) for f in nl["ffs"]]
        return outs, ds
    return run(a) != run(b)


CELL_PY = {
    "buf": lambda x: x[0], "not": lambda x: not x[0], "and2": lambda x: x[0] and x[1], "or2": lambda x: x[0] or x[1],
    "nand2": lambda x: not (x[0] and x[1]), "nor2": lambda x: not (x[0] or x[1]), "xor2": lambda x: x[0] != x[1],
    "xnor2": lambda x: x[0] == x[1], "and3": lambda x: x[0] and x[1] and x[2], "or3": lambda x: x[0] or x[1] or x[2],
    "nand3": lambda x: not (x[0] and x[1] and x[2]), "nor3": lambda x: not (x[0] or x[1] or x[2]),
    "ao21": lambda x: (x[0] and x[1]) or x[2], "aoi21": lambda x: not ((x[0] and x[1]) or x[2]),
    "oa21": lambda x: (x[0] or x[1]) and x[2], "oai21": lambda x: not ((x[0] or x[1]) and x[2]),
    "ao31": lambda x: (x[0] and x[1] and x[2]) or x[3], "aoi31": lambda x: not ((x[0] and x[1] and x[2]) or x[3]),
    "ao22": lambda x: (x[0] and x[1]) or (x[2] and x[3]), "aoi22": lambda x: not ((x[0] and x[1]) or (x[2] and x[3])),
    "oai22": lambda x: not ((x[0] or x[1]) and (x[2] or x[3])), "mux2": lambda x: x[2] if x[0] else x[1],
}


# ---------------------------------------------------------------------------------------------
# C18 (JIT): CLIF emitted by the real Cranelift front end == RTL terms, per comb-only design
# ---------------------------------------------------------------------------------------------
def run_clif_one(item, tier, work, cap):
    label, path = item
    try:
        p = subprocess.run([PY, os.path.join(ROOT, "tv", "clif_worker.py"), label, path, tier, work],
                           capture_output=True, text=True, timeout=cap)
        return json.loads(p.stdout.strip().splitlines()[-1])
    except Exception as e:  # noqa: BLE001
        return dict(label=label, path=path, error=f"worker failed: {e}", modules=[])



def replay_illtyped(path, top, work, env=None):
    """the encoder refused the IR as ill-typed: does the real engine crash while building / running it?"""
    sp = os.path.join(work, f"illtyped_{abs(hash((path, top))) % 10**8}.json")
    json.dump(dict(inputs={}, outputs=[]), open(sp, "w"))
    e = dict(os.environ)
    e.update(env or {})
    try:
        p = subprocess.run([TVDUMP, "jitdiff", path, top, sp], capture_output=True, text=True, timeout=300, env=e)
    except Exception as ex:  # noqa: BLE001
        return None, str(ex)
    if p.returncode != 0 and "panicked" in p.stderr:
        msg = next((l for l in p.stderr.splitlines() if "panicked" in l), "")
        nxt = p.stderr.splitlines()
        return True, (msg + " " + (nxt[nxt.index(msg) + 1] if msg in nxt and nxt.index(msg) + 1 < len(nxt) else ""))[:300]
    return False, p.stdout.strip()[-200:]


def replay_known_c18(known):
    """each listed C18 finding is re-run natively from its stored inputs; a line is printed only while it reproduces"""
    lines = []
    for f in known.get("findings", []):
        if f.get("property") != "C18" or not f.get("file"):
            continue
        sp = os.path.join(TARGET, "tvwork", f"kf_{abs(hash(f['design'])) % 10**8}.json")
        os.makedirs(os.path.dirname(sp), exist_ok=True)
        json.dump(dict(inputs=f["inputs"], outputs=f["outputs"]), open(sp, "w"))
        try:
            p = subprocess.run([TVDUMP, "jitdiff", os.path.join(ROOT, f["file"]), f["top"], sp], capture_output=True,
                               text=True, timeout=300)
            out = json.loads(p.stdout.strip().splitlines()[-1])
        except Exception:  # noqa: BLE001
            continue
        exp = f.get("expect_ieee") or {}
        off = [k for k, v in exp.items() if out.get("jit", {}).get(k) != v or out.get("interpreter", {}).get(k) != v]
        if out.get("differ") or off:
            lines.append(f"KNOWN-FINDING: property=C18 {f['what'][:220]} ({f['design']})")
    return lines


def run_c18_tv(tier, seed, only=None):
    import gen_corpus
    import hashlib
    import re
    t0 = time.time()
    work = os.path.join(TARGET, "tvwork")
    snips = os.path.join(work, "snips")
    os.makedirs(snips, exist_ok=True)
    if not build_tvdump():
        return 2, dict(jit_tv="tvdump did not build")
    items = []
    nrand = 64 if tier == "quick" else 400
    for label, code in gen_corpus.gen_jit(seed) + gen_corpus.gen_opt(seed) + gen_corpus.gen_random(seed, nrand):
        h = hashlib.sha1(code.encode()).hexdigest()[:10]
        p = os.path.join(snips, f"jit_{re.sub(r'[^A-Za-z0-9_]', '_', label)}_{h}.veryl")
        if not os.path.exists(p):
            open(p, "w").write(code)
        items.append((label, p))
    items += [i for i in corpus_mod.corpus(snips, seed) if i[0].startswith(("gen::", "verif::"))]
    if tier == "thorough":
        items += [i for i in corpus_mod.corpus(snips, seed) if i[0].startswith("integration::")]
    if only:
        items = [i for i in items if any(o in i[0] for o in only)]
    jobs = int(os.environ.get("VERIF_JOBS", "16"))
    cap = 200 if tier == "quick" else 900
    with cf.ThreadPoolExecutor(max_workers=jobs) as ex:
        results = list(ex.map(lambda it: run_clif_one(it, tier, work, cap), items))
    stats = collections.Counter()
    reasons = collections.Counter()
    diffs, samples, illtyped = [], [], []
    queries = 0
    for r in results:
        if r.get("error"):
            stats["error"] += 1
            continue
        for m in r["modules"]:
            v = m["verdict"]
            stats[v] += 1
            queries += m.get("queries", 0)
            if v in ("unsupported", "rtl_unsupported"):
                reasons[m.get("why", "")[:60]] += 1
            if v == "differs":
                diffs.append((r, m))
            if v == "illtyped":
                illtyped.append((r, m))
            if v == "equal" and len(samples) < 10:
                samples.append(dict(design=r["label"], top=m["top"], outputs_compared=m.get("obligations"),
                                    clif_functions=m.get("functions")))
    known = load_known()
    violations, unrepro = [], []
    known_lines = replay_known_c18(known)
    for (r, m) in illtyped:
        crashed, msg = replay_illtyped(r["path"], m["top"], work)
        key = f"{r['label']}::{m['top']}::ill-typed IR"
        if crashed:
            rp = os.path.join(ROOT, "evidence", "replay",
                              f"C18-{r['label'].replace('::', '_').replace('#', '_')}-{m['top']}-illtyped.json")
            os.makedirs(os.path.dirname(rp), exist_ok=True)
            json.dump(dict(property="C18", design=r["label"], path=r["path"], source=_src(r["path"]), top=m["top"], encoder=m.get("why"),
                           native=msg, replay_cmd=f"{TVDUMP} jitdiff {r['path']} {m['top']} <any inputs json>"),
                      open(rp, "w"), indent=1)
            violations.append((key, rp))
        elif crashed is False:
            reasons["ill-typed IR in the encoder, engine runs (verifier-only difference)"] += 1
        else:
            unrepro.append((key, msg))
    for (r, m) in diffs:
        key = f"{r['label']}::{m['top']}::{m.get('port')}"
        sp = os.path.join(work, f"jitstim_{abs(hash(key)) % 10**8}.json")
        rtlj = os.path.join(work, f"jitrtl_{abs(hash(key)) % 10**8}.json")
        subprocess.run([TVDUMP, "rtl", r["path"], rtlj, m["top"]], capture_output=True)
        try:
            outs = [o["name"] for o in json.load(open(rtlj))["modules"][0]["rtl"]["outputs"]]
        except Exception:  # noqa: BLE001
            outs = [m.get("port")]
        json.dump(dict(inputs=m["inputs"], outputs=outs), open(sp, "w"))
        try:
            p = subprocess.run([TVDUMP, "jitdiff", r["path"], m["top"], sp], capture_output=True, text=True, timeout=300)
            out = json.loads(p.stdout.strip().splitlines()[-1])
        except Exception as e:  # noqa: BLE001
            out = dict(error=str(e))
        if out.get("differ"):
            rp = os.path.join(ROOT, "evidence", "replay",
                              f"C18-{r['label'].replace('::', '_').replace('#', '_')}-{m['top']}.json")
            os.makedirs(os.path.dirname(rp), exist_ok=True)
            json.dump(dict(property="C18", design=r["label"], path=r["path"], source=_src(r["path"]), top=m["top"], inputs=m["inputs"],
                           solver=dict(port=m.get("port"), jit=m.get("jit_value"), rtl=m.get("rtl_value")),
                           native=out, replay_cmd=f"{TVDUMP} jitdiff {r['path']} {m['top']} <inputs json>"),
                      open(rp, "w"), indent=1)
            kf = next((f for f in known.get("findings", []) if f["property"] == "C18" and f.get("design") == key), None)
            if kf:
                known_lines.append(f"KNOWN-FINDING: property=C18 {kf['what']} ({key})")
            else:
                violations.append((key, rp))
        else:
            unrepro.append((key, json.dumps(out)[:200]))
    cov = dict(jit_tv=dict(designs=len(items), verdicts=dict(stats), queries_discharged=queries, samples=samples,
                           not_covered=[dict(why=k, modules=v) for k, v in reasons.most_common(12)],
                           unreproduced=[dict(design=k, native=o) for k, o in unrepro],
                           wall_s=round(time.time() - t0, 1),
                           functions_encoded=["veryl_simulator::backend::cranelift::{expression,statement,runtime}: the "
                                              "Cranelift IR they emit for each design (read back through Config::dump_cranelift)"],
                           bound="comb-only designs of the generated JIT corpus (operators x widths 1..128 x signedness, "
                                 "shift amounts reaching and exceeding the width, mixed widths, ternary, concatenation) "
                                 "and of the C19 corpus; all input values; CLIF subset of tv/clif.py; what Cranelift "
                                 "does below the IR (instruction selection, register allocation) is outside"))
    for line in known_lines:
        print(line)
    if violations:
        for (k, rp) in violations:
            print(f"VIOLATION property=C18 replay={rp}")
        return 1, cov
    proved = stats.get("equal", 0)
    floor = 450 if not only else 0
    if unrepro or proved < floor:
        log(f"INCONCLUSIVE C18 jit part: {dict(stats)} unreproduced={unrepro[:3]} (floor {floor})")
        return 2, cov
    print(f"OK property=C18 jit-clif designs={proved} queries={queries}")
    return 0, cov


# ---------------------------------------------------------------------------------------------
# C03: every optimisation-toggle configuration emits Cranelift IR equivalent to the same RTL terms
# ---------------------------------------------------------------------------------------------
C03_TOGGLES = [  # (name in the property, environment that switches the pass OFF)
    ("comb_fusion", {"VERYL_COMB_FUSION": "0"}),
    ("cone_gate", {"VERYL_CONE_GATE": "0"}),
    ("dead_var_dce", {"VERYL_DEAD_VAR_DCE": "0"}),
    ("vsplit", {"VERYL_VSPLIT": "0"}),
    ("vsplit_lut", {"VERYL_VSPLIT_LUT": "0"}),
    ("lane_vector", {"VERYL_LANE_VECTOR": "0"}),
    ("comb_layout", {"VERYL_COMB_LAYOUT": "0"}),
    ("cond_hoist", {"VERYL_COND_HOIST_DISABLE": "1"}),
    ("switch_lower", {"VERYL_SWITCH_LOWER_DISABLE": "1"}),
    ("load_cache", {"VERYL_FORCE_DISABLE_LOAD_CACHE": "1"}),
]
C03_SUB = [  # per-stage levers inside the passes above
    ("fusion_coalesce", {"VERYL_COMB_FUSION_COALESCE": "0"}),
    ("fusion_word_coalesce", {"VERYL_COMB_FUSION_WORD_COALESCE": "0"}),
    ("fusion_cheap", {"VERYL_COMB_FUSION_CHEAP": "0"}),
    ("fusion_cse", {"VERYL_COMB_FUSION_CSE": "0"}),
    ("lane_fold", {"VERYL_LANE_FOLD": "0"}),
    ("lane_merge", {"VERYL_LANE_MERGE": "0"}),
    ("dce_single_pass", {"VERYL_DEAD_VAR_DCE_MULTI": "0"}),
]


def c03_configs(tier, seed):
    import random
    cfgs = [("default", {})]
    cfgs += [(f"no_{n}", e) for n, e in C03_TOGGLES]
    alloff = {}
    for _, e in C03_TOGGLES:
        alloff.update(e)
    cfgs.append(("all_off", alloff))
    rnd = random.Random(1000 + seed)
    nsub = 4 if tier == "quick" else 32
    for k in range(nsub):
        env, names = {}, []
        for n, e in C03_TOGGLES:
            if rnd.random() < 0.5:
                env.update(e)
                names.append(n)
        cfgs.append((f"subset{k}:" + "+".join(names), env))
    if tier == "thorough":
        cfgs += [(f"no_{n}", e) for n, e in C03_SUB]
    return cfgs


def run_c03(tier, seed, write_evidence, only=None):
    import gen_corpus
    import hashlib
    import re
    t0 = time.time()
    work = os.path.join(TARGET, "tvwork")
    snips = os.path.join(work, "snips")
    os.makedirs(snips, exist_ok=True)
    if not build_tvdump():
        log("INCONCLUSIVE C03: tvdump did not build")
        return 2
    items = []
    # (the operator sweep of gen_jit is left to C18: its wide dividers under 51 toggle sets cost hours of solver
    # time and the passes do not look at operators)
    gens = gen_corpus.gen_opt(seed) + gen_corpus.gen_random(seed, 48 if tier == "quick" else 300)
    for label, code in gens:
        h = hashlib.sha1(code.encode()).hexdigest()[:10]
        p = os.path.join(snips, f"opt_{re.sub(r'[^A-Za-z0-9_]', '_', label)}_{h}.veryl")
        if not os.path.exists(p):
            open(p, "w").write(code)
        items.append((label, p))
    pref = ("gen::", "verif::") if tier == "quick" else ("gen::", "verif::", "integration::")
    items += [i for i in corpus_mod.corpus(snips, seed) if i[0].startswith(pref)]
    if only:
        items = [i for i in items if any(o in i[0] for o in only)]
    cfgs = c03_configs(tier, seed)
    cj = json.dumps(cfgs)
    jobs = int(os.environ.get("VERIF_JOBS", "16"))
    cap = 600 if tier == "quick" else 1200

    def one(it):
        try:
            p = subprocess.run([PY, os.path.join(ROOT, "tv", "clif_worker.py"), it[0], it[1], tier, work, cj],
                               capture_output=True, text=True, timeout=cap)
            return json.loads(p.stdout.strip().splitlines()[-1])
        except Exception as e:  # noqa: BLE001
            return dict(label=it[0], path=it[1], error=f"worker failed: {e}", modules=[])
    with cf.ThreadPoolExecutor(max_workers=jobs) as ex:
        results = list(ex.map(one, items))
    stats, reasons = collections.Counter(), collections.Counter()
    diffs, samples, queries, cfg_runs = [], [], 0, 0
    enc_s = 0.0
    distinct = collections.Counter()
    for r in results:
        if r.get("error"):
            stats["error"] += 1
            continue
        for m in r["modules"]:
            v = m["verdict"]
            stats[v] += 1
            queries += m.get("queries", 0)
            enc_s += m.get("secs", 0) or 0
            if v == "equal":
                cfg_runs += m.get("configs", 1)
                for c in m.get("distinct_from_default", []):
                    distinct[c] += 1
                if len(samples) < 12:
                    samples.append(dict(design=r["label"], top=m["top"], configurations=m.get("configs"),
                                        outputs_compared=m.get("obligations"),
                                        configs_with_different_ir=m.get("distinct_from_default")))
            elif v == "differs":
                diffs.append((r, m))
            else:
                reasons[m.get("why", "")[:70]] += 1
    known = load_known()
    violations, known_lines, unrepro, notes = [], [], [], []
    cfg_env = dict(cfgs)
    for (r, m) in diffs:
        key = f"{r['label']}::{m['top']}::{m.get('config')}"
        tag = abs(hash(key)) % 10**8
        sp = os.path.join(work, f"optstim_{tag}.json")
        rtlj = os.path.join(work, f"optrtl_{tag}.json")
        subprocess.run([TVDUMP, "rtl", r["path"], rtlj, m["top"]], capture_output=True)
        try:
            outs = [o["name"] for o in json.load(open(rtlj))["modules"][0]["rtl"]["outputs"]]
        except Exception:  # noqa: BLE001
            outs = [m.get("port")]
        json.dump(dict(inputs=m["inputs"], outputs=outs), open(sp, "w"))
        rows = {}
        # the model is replayed under EVERY toggle set: the property is violated when two sets disagree natively
        for cname, cenv in cfgs:
            e = dict(os.environ)
            e.update(cenv)
            try:
                p = subprocess.run([TVDUMP, "jitdiff", r["path"], m["top"], sp], capture_output=True, text=True,
                                   timeout=300, env=e)
                rows[cname] = json.loads(p.stdout.strip().splitlines()[-1])
            except Exception as ex_:  # noqa: BLE001
                rows[cname] = dict(error=str(ex_))
        good = {c: (json.dumps(v.get("jit"), sort_keys=True), json.dumps(v.get("interpreter"), sort_keys=True))
                for c, v in rows.items() if "error" not in v}
        a = rows.get("default", {})
        other = next((c for c in good if good[c] != good.get("default")), None) if "default" in good else None
        b = rows.get(other, {}) if other else rows.get(m.get("config"), {})
        differ = other is not None
        if differ:
            rows = {"default": a, other: b, "toggle_sets_agreeing_with_default": [c for c in good if good[c] == good["default"]]}
            m["config"] = other
        if differ:
            rp = os.path.join(ROOT, "evidence", "replay",
                              f"C03-{r['label'].replace('::', '_').replace('#', '_')}-{m['top']}.json")
            os.makedirs(os.path.dirname(rp), exist_ok=True)
            json.dump(dict(property="C03", design=r["label"], path=r["path"], source=_src(r["path"]), top=m["top"], inputs=m["inputs"],
                           configuration=m.get("config"), environment=cfg_env.get(m.get("config")),
                           solver=dict(port=m.get("port"), jit=m.get("jit_value"), rtl=m.get("rtl_value")),
                           native=rows,
                           replay_cmd=f"env <environment> {TVDUMP} jitdiff {r['path']} {m['top']} <inputs json>  (and "
                                      f"again without the environment)"), open(rp, "w"), indent=1)
            kf = next((f for f in known.get("findings", []) if f["property"] == "C03" and f.get("design") == key), None)
            if kf:
                known_lines.append(f"KNOWN-FINDING: property=C03 {kf['what']} ({key})")
            else:
                violations.append((key, rp))
        elif b.get("differ") and a.get("differ") and m.get("config") != "default":
            notes.append(f"{key}: JIT differs from the interpreter identically with and without the toggle (C18, not C03)")
        elif m.get("config") == "default" and a.get("differ"):
            notes.append(f"{key}: default configuration: JIT differs from interpreter (C18, not C03)")
        else:
            unrepro.append((key, json.dumps(rows)[:300]))
    proved = stats.get("equal", 0)
    coverage = dict(
        programs=proved, disagreements_checked=len(diffs),
        samples=samples or [dict(note="no design reached a verdict")],
        technique="translation validation per toggle configuration: Cranelift IR emitted by the real simulator front end "
                  "under each environment vs one configuration-independent RTL term, z3",
        designs_in_corpus=len(items), configurations=[c for c, _ in cfgs], verdicts=dict(stats),
        design_x_configuration_pairs_proved=cfg_runs,
        designs_whose_ir_changes_under=dict(distinct),
        queries_discharged=queries, encode_and_solver_time_s=round(enc_s, 1),
        not_covered=[dict(why=k, modules=v) for k, v in reasons.most_common(12)],
        unreproduced=[dict(design=k, native=o) for k, o in unrepro], notes=notes[:20],
        wall_s=round(time.time() - t0, 1),
        functions_encoded=["veryl_simulator::ir::{module (pass pipeline), opt::{comb_fusion, dead_var_dce, dup_assign_dce, "
                           "version_split, lane_vector}, comb_layout} and backend::cranelift::{statement (switch lowering), "
                           "runtime (load cache)}: run concretely per design and toggle set inside build_ir; their result "
                           "is the Cranelift IR that is encoded"],
        bounds=f"programs = {len(items)} comb-only single-module designs (shapes aimed at each pass + the operator "
               f"corpus); configurations = default, each of the 10 toggles off, all off, {4 if tier == 'quick' else 32} "
               f"seeded random subsets{'' if tier == 'quick' else ', 7 per-stage levers'}; all input values and all "
               f"previous buffer contents; z3 timeout {20 if tier == 'quick' else 40}s per query",
        outside_claim="designs with state, instances (so cone gating, which needs a module subtree, never fires), "
                      "$display / test verdicts (so conditional hoisting never fires), the interpreter's execution of the "
                      "optimised statements (replayed natively, not encoded), what Cranelift does below its IR",
    )
    assumptions = [
        "RTL reference semantics: tv/tvdump/src/rtl.rs (shared with C19/C18, independent of every toggle)",
        "CLIF semantics: tv/clif.py; buffer cells hold width-clean previous values; input cells hold the inputs",
        "a toggle is observed only through the environment variable of a fresh process (OnceLock per process)",
    ]
    write_evidence("C03", tier, seed, "translation_validation", coverage, assumptions, time.time() - t0, len(violations))
    for line in known_lines:
        print(line)
    if violations:
        for (k, rp) in violations:
            print(f"VIOLATION property=C03 replay={rp}")
            log(f"  {k}")
        return 1
    floor = (300 if tier == "quick" else 600) if not only else 0
    missing = [n for n in ("no_comb_fusion", "no_dead_var_dce", "no_vsplit", "no_vsplit_lut", "no_comb_layout",
                           "no_switch_lower") if not distinct.get(n)] if not only else []
    if unrepro or proved < floor or missing:
        log(f"INCONCLUSIVE C03: {dict(stats)} unreproduced={unrepro[:3]} floor={floor} toggles never changing the IR={missing}")
        return 2
    for n in notes[:10]:
        log("NOTE C03", n)
    print(f"OK property=C03 tier={tier} designs={proved} design_x_config={cfg_runs} queries={queries}")
    log(json.dumps(dict(distinct)))
    return 0


# ---------------------------------------------------------------------------------------------
# --replay <file>: re-run one recorded counterexample natively on the CURRENT tree
# ---------------------------------------------------------------------------------------------
def replay_file(prop, path):
    d = json.load(open(path))
    prop = d.get("property", prop)
    if prop not in ("C19", "C18", "C03", "C21") or (prop in ("C18", "C21") and "harness" in d):
        return None     # a Kani harness counterexample: replayed by check.py from its recorded command
    work = os.path.join(TARGET, "tvwork")
    os.makedirs(work, exist_ok=True)
    src = d.get("path")
    if not (src and os.path.exists(src)):
        if not d.get("source"):
            log("replay: the design file is gone and the replay file carries no source")
            return 2
        src = os.path.join(work, "replay_" + os.path.basename(d.get("path") or "design.veryl"))
        open(src, "w").write(d["source"])
    top = d["top"]
    if prop in ("C19", "C18", "C03") and not build_tvdump():
        return 2
    if prop == "C19":
        if "stimulus" not in d:
            log("replay: structural difference (clock edge), read directly from the netlist:", d.get("structural_difference"))
            return 1
        out, _ = replay(src, top, dict(stimulus=d["stimulus"], clock=d.get("clock"), cfg=d.get("cfg") or {}), work)
        log("native:", json.dumps(out.get("first_diff")))
        rep = bool(out.get("reproduced"))
    elif prop in ("C18", "C03"):
        if "inputs" not in d:
            crashed, msg = replay_illtyped(src, top, work)
            log("native:", msg)
            rep = bool(crashed)
        else:
            rtlj = os.path.join(work, "replay_rtl.json")
            subprocess.run([TVDUMP, "rtl", src, rtlj, top], capture_output=True)
            try:
                outs = [o["name"] for o in json.load(open(rtlj))["modules"][0]["rtl"]["outputs"]]
            except Exception:  # noqa: BLE001
                outs = []
            sp = os.path.join(work, "replay_stim.json")
            json.dump(dict(inputs=d["inputs"], outputs=outs), open(sp, "w"))
            rows = []
            for env in ([{}] if prop == "C18" else [{}, d.get("environment") or {}]):
                e = dict(os.environ)
                e.update(env)
                p = subprocess.run([TVDUMP, "jitdiff", src, top, sp], capture_output=True, text=True, timeout=300, env=e)
                try:
                    rows.append(json.loads(p.stdout.strip().splitlines()[-1]))
                except Exception:  # noqa: BLE001
                    rows.append(dict(error=p.stderr[-200:]))
                log("native", env, json.dumps(rows[-1])[:400])
            if prop == "C18":
                rep = bool(rows[0].get("differ")) or "error" in rows[0]
            else:
                rep = ("error" not in rows[0] and "error" not in rows[1] and
                       (rows[0].get("jit") != rows[1].get("jit") or rows[0].get("interpreter") != rows[1].get("interpreter")))
    elif prop == "C21":
        if not build_tvaig():
            return 2
        v = d.get("solver")
        rep = bool(native_aig_replay(src, top, d.get("comparison"), v, work))
    else:
        return None
    if rep:
        print(f"VIOLATION property={prop} replay={path}")
        return 1
    print(f"OK property={prop} replay does not reproduce on the current tree")
    return 0
