#!/usr/bin/env python3
"""Writes /verif/MANIFEST.json from the tables below (single source of truth for
what is claimed and what is not applicable)."""
import json

PY = "python3-vt"

CLAIMED = {
    # id: dict(level, text, note, technique, design_ref)
}

NA = {
    "C01": "needs a semantics of the emitted SystemVerilog text plus symbolic execution of the emitter's syntax-tree walker and of the JIT; no installed engine executes either. The operator-level half is what C17/C18 decide.",
    "C02": "engines are run-time generated machine code (Cranelift), compiled C, or an interpreter over raw buffers built by the analyzer pipeline; only the shared operator kernel is symbolically reachable (claimed under C17/C18).",
    "C03": "optimisation passes rewrite a ~15 kLoC buffer-offset IR behind process-global OnceLock toggles; validating them needs an SMT semantics of that IR, not built here.",
    "C04": "miss-set/replay logic is interleaved with file reads, mtimes, the cache store and full analyzer runs; build histories are not encodable for a solver.",
    "C05": "crash points and byte corruption of files under .build: no symbolic file system is available to any installed engine.",
    "C07": "LSP notification histories over drop_file on global HashMap tables fed by the parser: not symbolically executable.",
    "C08": "formatter = syntax-tree walker + aligner over token positions; the fixpoint quantifies over parseable texts and needs the parol parser, which Kani cannot execute.",
    "C09": "same walker; comparing token streams of two concrete texts poses no solver question.",
    "C10": "termination/crash-freedom of the generated LL(k) parser and scnr2 lexer on all UTF-8 strings; Kani does not get through them even for 4-byte inputs.",
    "C11": "all analyzer passes on all parseable inputs: parser + HashMap/BigUint-heavy passes, out of reach of CBMC.",
    "C12": "positions come from the lexer and a regex split of comment runs (private, regex iterator); not symbolically executable.",
    "C13": "entries are produced by the emitter walker and the pretty printer's anchor bookkeeping (see C28), then handed to the external sourcemap builder.",
    "C14": "graph construction over analyzer IR, SCCs and SSA store; exactness needs an IR-level reference for all programs.",
    "C15": "AssignTable is BigUint masks in HashMaps driven by statement walking; Kani does not terminate on num-bigint (probe).",
    "C20": "area/delay are f64 sums over HashMap buckets (floating point + hashing); driver-uniqueness/acyclicity of one concrete netlist is a graph audit without a quantifier for a solver.",
    "C22": "sv-parser front end and a semantics of the SystemVerilog *input* would be needed; neither is encodable here.",
    "C23": "two generated parsers and position-driven text reconstruction.",
    "C24": "permutations of whole-pipeline runs; hash-map iteration order is not modelled by any installed engine.",
    "C25": "Metadata::paths, daggy toposort over the global type DAG, path strings and file system.",
    "C26": "emitter walker under option sets; comparing concrete outputs is not a solver question.",
    "C27": "CLI exit status versus file mutations: file-system behaviour.",
    "C28": "render.rs builds a String whose length depends on every layout decision; three Kani probes (shape symbolic -> only max_width symbolic) each exceeded 4-8 min and 6-9 GB without an answer. Out of reach by cost.",
    "C29": "Store is std::fs + toml + blake3 over BTreeMap<String,_>; an abstract map model would not be the code.",
    "C30": "multi-process interleavings on real file locks and renames; Kani does not model concurrency or the OS.",
    "C31": "resolution is interleaved with git clone/fetch, directory walking and TOML loading; the release list comes from disk.",
    "C33": "background cc compile and hot swap timing: processes, dlopen, wall-clock.",
    "C34": "module-cache reuse across whole simulations with JIT code.",
    "C35": "native dlopen vs wasmtime transports (wasm32 target absent) and timing relative to commit_event_log need a live Simulator; the leaf copies are plain memcpy.",
    # claimed ones fall back here until their check is registered
    "C06": "check not yet registered in this revision (ID-codec harness under construction).",
    "C16": "check not yet registered in this revision (clock-domain relation harness under construction).",
    "C17": "check not yet registered in this revision (operator harnesses under construction).",
    "C18": "check not yet registered in this revision (wide_ops harnesses under construction).",
    "C19": "check not yet registered in this revision (netlist miter under construction).",
    "C21": "check not yet registered in this revision (npn4 harnesses under construction).",
    "C32": "check not yet registered in this revision (range-draw harness under construction).",
    "C36": "check not yet registered in this revision (Annex H harness under construction).",
}


def load_claimed():
    import os, sys
    sys.path.insert(0, os.path.dirname(__file__))
    try:
        import claims
        return claims.CLAIMED
    except ImportError:
        return CLAIMED


def main():
    claimed = load_claimed()
    checks = []
    for pid in sorted(claimed):
        c = claimed[pid]
        checks.append(dict(
            property_id=pid,
            quick_cmd=f"{PY} run/check.py {pid} --tier quick",
            thorough_cmd=f"{PY} run/check.py {pid} --tier thorough",
            evidence_file=f"/verif/evidence/{pid}.json",
            replay_cmd_template=f"{PY} run/check.py {pid} --replay {{path}}",
            engine=c.get("engine", "kani-cbmc"),
            level_claimed=dict(category=c["level"], text=c["text"], design_ref=c.get("design_ref", "DESIGN.md section 2")),
            level_note=c["note"],
            technique=c["technique"]))
    na = [dict(property_id=k, reason=v) for k, v in sorted(NA.items()) if k not in claimed]
    m = dict(
        version=1,
        setup_cmd=f"{PY} run/setup.py",
        hooks=dict(guard="none",
                   enable="no source hooks: harness crates depend on /repo/crates/* by path (or #[path]/splice the real file) and are rebuilt from the working tree on every run",
                   baseline_off_cmd="cd /repo && cargo nextest run --workspace --no-fail-fast --test-threads 8 --offline || cargo test --workspace --no-fail-fast --offline",
                   source_commits=[], add_only=True),
        engines=[
            dict(name="kani-cbmc", path="/verif/kani", serves_properties=[p for p in sorted(claimed) if claimed[p].get("engine", "kani-cbmc") == "kani-cbmc"],
                 kind_free_text="Kani 0.68 / CBMC 6.11 / cadical: bounded model checking of the compiled Rust of /repo, symbolic inputs, native replay of counterexamples"),
            dict(name="tv-miter", path="/verif/tv", serves_properties=[p for p in sorted(claimed) if claimed[p].get("engine") == "tv-miter"],
                 kind_free_text="translation validation: the real synthesizer's output netlists encoded as SMT, miters decided by z3 (cvc5 cross-check)"),
        ],
        checks=checks,
        not_applicable=na,
        notes="Solver-based checking of the real code; see DESIGN.md. Every claim is bounded; bounds and what lies outside them are in each evidence file.",
    )
    json.dump(m, open("/verif/MANIFEST.json", "w"), indent=1)
    print("claimed", sorted(claimed), "not_applicable", len(na))


if __name__ == "__main__":
    main()
