#!/usr/bin/env python3
"""Offline pre-build of the harness workspaces (MANIFEST.setup_cmd).

Only warms cargo's caches under /verif/.target: every check rebuilds from
/repo's current working tree anyway (cargo fingerprints the path deps)."""
import os
import subprocess
import sys

sys.path.insert(0, os.path.dirname(__file__))
import check  # noqa: E402
import harness_defs as H  # noqa: E402


def main():
    rc = 0
    for crate, info in H.CRATE_INFO.items():
        d = check.prepare_crate(crate)
        first = next((h["name"] for h in H.all_harnesses() if h["crate"] == crate), None)
        if first is None:
            continue
        cmd = ["cargo", "kani", "-Z", "stubbing", "--only-codegen", "--exact", "--harness", first,
               "--target-dir", os.path.join(check.TARGET, f"{crate}-kani")]
        print("+", " ".join(cmd), flush=True)
        p = subprocess.run(cmd, cwd=d, env=check.ENV)
        rc |= p.returncode
        for rel in (False, True):
            if check.build_replay(crate, rel) is None:
                rc |= 1
    import tv_check
    if not tv_check.build_tvdump():
        rc |= 1
    if not tv_check.build_tvaig():
        rc |= 1
    sys.exit(1 if rc else 0)


if __name__ == "__main__":
    main()
