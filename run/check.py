#!/usr/bin/env python3
"""Driver for every check in /verif.

  check.py <PROPERTY> --tier quick|thorough [--only h1,h2] [--jobs N]

exit 0  every registered harness/query was decided and none violated the
        property (KNOWN-FINDING lines may be printed)
exit 1  a solver model reproduced natively against the real build and is not
        in known_findings.json:  VIOLATION property=<id> replay=<path>
exit 2  inconclusive: timeout, OOM, vacuous harness, build failure, or a model
        that did not reproduce (encoding error) -- never reported as a pass.
"""
import argparse
import hashlib
import json
import os
import re
import resource
import shutil
import subprocess
import sys
import time

ROOT = "/verif"
REPO = "/repo"
TARGET = os.path.join(ROOT, ".target")
sys.path.insert(0, os.path.join(ROOT, "run"))
import harness_defs as H  # noqa: E402

ENV = dict(os.environ)
ENV["CARGO_NET_OFFLINE"] = "true"
ENV.setdefault("CARGO_TERM_COLOR", "never")

LEVEL = {
    "C17": "model_checking", "C18": "model_checking", "C36": "model_checking",
    "C06": "model_checking", "C16": "model_checking", "C32": "model_checking",
    "C21": "model_checking", "C19": "translation_validation", "C03": "translation_validation",
}


def log(*a):
    print(*a, file=sys.stderr, flush=True)


def sha(path):
    try:
        return hashlib.sha256(open(path, "rb").read()).hexdigest()[:16]
    except OSError:
        return None


def limit_as():
    # per-process virtual memory cap (CBMC that explodes dies instead of the box)
    cap = 48 * 1024 ** 3
    resource.setrlimit(resource.RLIMIT_AS, (cap, cap))


def prepare_crate(crate):
    d = os.path.join(ROOT, "kani", crate)
    new = H.gen_rs(crate)
    p = os.path.join(d, "src", "gen.rs")
    if not os.path.exists(p) or open(p).read() != new:
        open(p, "w").write(new)
    # same dependency resolution as the repository, offline
    lock_src = os.path.join(REPO, "Cargo.lock")
    lock_dst = os.path.join(d, "Cargo.lock")
    if H.CRATE_INFO[crate].get("repo_lock") and (
            not os.path.exists(lock_dst) or H.CRATE_INFO[crate].get("refresh_lock")):
        shutil.copy(lock_src, lock_dst)
    hook = H.CRATE_INFO[crate].get("prepare")
    if hook:
        hook(d)
    return d


def run_kani(crate, names, cap_s, jobs, playback=False, tag="run"):
    """One cargo-kani invocation for a set of harnesses. Returns (json, logpath)."""
    d = prepare_crate(crate)
    os.makedirs(TARGET, exist_ok=True)
    out_json = os.path.join(TARGET, f"{crate}-{tag}.json")
    logp = os.path.join(TARGET, f"{crate}-{tag}.log")
    if os.path.exists(out_json):
        os.remove(out_json)
    cmd = ["cargo", "kani", "-Z", "stubbing", "-Z", "unstable-options",
           "--harness-timeout", f"{cap_s}s", "--exact",
           "--target-dir", os.path.join(TARGET, f"{crate}-kani"),
           "--export-json", out_json, "--output-format", "terse"]
    if playback:
        cmd += ["-Z", "concrete-playback", "--concrete-playback", "print"]
    else:
        cmd += ["-j", str(jobs)]
    for n in names:
        cmd += ["--harness", n]
    t0 = time.time()
    with open(logp, "w") as lf:
        p = subprocess.run(cmd, cwd=d, env=ENV, stdout=lf, stderr=subprocess.STDOUT,
                           preexec_fn=limit_as)
    dt = time.time() - t0
    js = None
    if os.path.exists(out_json):
        try:
            js = json.load(open(out_json))
        except Exception as e:  # noqa: BLE001
            log("bad kani json:", e)
    return js, logp, dt, p.returncode


MY_SRC = re.compile(r"(^|/)src/(c\d+\w*|oracle|lib|gen|harness\w*)\.rs$")


def classify(js, names):
    """per harness: dict(status, failed=[(desc, file, fn)], stats, covers)"""
    res = {n: dict(status="missing", failed=[], stats={}, props={}, obl=0, obl_ok=0) for n in names}
    if not js:
        return res
    short = lambda hid: hid.split("::")[-1]  # noqa: E731
    for r in js.get("verification_results", {}).get("results", []):
        n = short(r["harness_id"])
        if n not in res:
            continue
        res[n]["status"] = r.get("status", "unknown")
        res[n]["duration_ms"] = r.get("duration_ms")
        for c in r.get("checks", []):
            st = c.get("status", "").lower()
            loc = c.get("location", {})
            if st in ("failure", "failed"):
                res[n]["failed"].append((c.get("description", ""), loc.get("file", ""),
                                         c.get("function", ""), c.get("category", "")))
            # harness-level obligations: assertions written in /verif/kani/*/src (not generic
            # memory-safety/overflow checks inside library code)
            f = loc.get("file", "")
            if c.get("category") == "assertion" and (not f.startswith("/") or f.startswith("/verif/kani/")) \
                    and MY_SRC.search(f) and st != "unreachable" \
                    and not re.match(r"(attempt to |unreachable|index out of bounds|This is a placeholder|"
                                     r"internal error|explicit panic|arithmetic overflow)", c.get("description", "")):
                res[n]["obl"] += 1
                if st == "success":
                    res[n]["obl_ok"] += 1
    for e in js.get("error_details", []):
        n = short(e["harness_id"])
        if n in res:
            res[n]["error"] = e
    for e in js.get("property_details", []):
        n = short(e["harness_id"])
        if n in res:
            res[n]["props"] = e.get("property_details") or {}
    for e in js.get("cbmc", []):
        n = short(e["harness_id"])
        if n in res:
            res[n]["stats"] = e.get("cbmc_stats") or {}
    return res


def parse_playback(logp, name):
    """Extract the draw list Kani printed for harness `name`."""
    txt = open(logp, errors="replace").read()
    tests = re.split(r"Concrete playback unit test for `", txt)[1:]
    out = []
    for t in tests:
        hname = t.split("`", 1)[0].split("::")[-1]
        if hname != name:
            continue
        body = t.split("kani::concrete_playback_run", 1)[0]
        draws = []
        for m in re.finditer(r"^\s*vec!\[([0-9, ]*)\],?\s*$", body, re.M):
            draws.append([int(x) for x in m.group(1).replace(" ", "").split(",") if x])
        out.append(draws)
    return out


def build_replay(crate, release):
    d = prepare_crate(crate)
    cmd = ["cargo", "build", "--offline", "--bin", "replay",
           "--target-dir", os.path.join(TARGET, f"{crate}-native")]
    if release:
        cmd.append("--release")
    p = subprocess.run(cmd, cwd=d, env=ENV, stdout=subprocess.PIPE, stderr=subprocess.STDOUT, text=True)
    if p.returncode != 0:
        log(p.stdout[-4000:])
        return None
    return os.path.join(TARGET, f"{crate}-native", "release" if release else "debug", "replay")


def run_replay(binp, name, draws):
    arg = "/".join(",".join(str(b) for b in d) for d in draws)
    p = subprocess.run([binp, name, arg], stdout=subprocess.PIPE, stderr=subprocess.STDOUT, text=True,
                       timeout=600)
    return p.returncode, p.stdout[-2000:]


def load_known():
    p = os.path.join(ROOT, "known_findings.json")
    if os.path.exists(p):
        return json.load(open(p))
    return {"findings": [], "fixed": []}


def known_match(known, prop, name, failed_descs):
    for f in known.get("findings", []):
        if f["property"] != prop:
            continue
        if not re.fullmatch(f["harness_regex"], name):
            continue
        want = set(f.get("failed_checks", []))
        if want and not set(failed_descs) <= want:
            continue
        return f
    return None


def write_evidence(prop, tier, seed, level, coverage, assumptions, wall, violations):
    os.makedirs(os.path.join(ROOT, "evidence"), exist_ok=True)
    ev = dict(property_id=prop, tier=tier, seed=seed, level=level, coverage=coverage,
              assumptions=assumptions, wall_s=round(wall, 1), violations=violations)
    with open(os.path.join(ROOT, "evidence", f"{prop}.json"), "w") as f:
        json.dump(ev, f, indent=1)


def kani_property(prop, tier, only, jobs, seed):
    t0 = time.time()
    hs = [h for h in H.all_harnesses() if h["prop"] == prop and tier in h["tiers"]]
    if only:
        hs = [h for h in hs if h["name"] in only]
    if not hs:
        log("no harnesses selected")
        return 2
    by_crate = {}
    for h in hs:
        by_crate.setdefault(h["crate"], []).append(h)
    hmap = {h["name"]: h for h in hs}
    cap = int(os.environ.get("VERIF_CAP_S", "600" if tier == "quick" else "1800"))
    results, logs, build_fail = {}, {}, False
    for crate, lst in by_crate.items():
        names = [h["name"] for h in lst]
        js, logp, dt, rc = run_kani(crate, names, cap, jobs, tag=f"{prop}-{tier}")
        logs[crate] = logp
        log(f"[{prop}] cargo kani {crate}: {len(names)} harnesses, {dt:.0f}s, rc={rc}")
        if js is None:
            build_fail = True
            log(open(logp, errors="replace").read()[-3000:])
            continue
        results.update(classify(js, names))

    inconclusive, violations, known_lines, passed, unreplayed = [], [], [], [], []
    known = load_known()
    dev_only = []
    for name, r in sorted(results.items()):
        h = hmap[name]
        st = r["status"]
        props = r.get("props", {})
        if st == "Success":
            if props.get("unsatisfiable", 0) or not props.get("satisfied", 0):
                inconclusive.append((name, "vacuous: cover witness not satisfied"))
            else:
                passed.append(name)
            continue
        if st != "Failure" or not r["failed"]:
            why = (r.get("error") or {}).get("exit_status") or st
            inconclusive.append((name, f"not decided ({why})"))
            continue
        descs = sorted({d for (d, _, _, _) in r["failed"]})
        if any("unwinding assertion" in d for d in descs):
            inconclusive.append((name, "unwinding bound too small"))
            continue
        # counterexample -> concrete playback -> native replay (first few failing harnesses only:
        # each replay costs a sequential Kani run; one reproduced counterexample decides the exit code)
        if len(violations) + len(known_lines) + len(dev_only) >= 3:
            unreplayed.append((name, descs))
            continue
        js2, logp2, _, _ = run_kani(h["crate"], [name], cap * 2, 1, playback=True,
                                    tag=f"{prop}-pb-{name}")
        pbs = parse_playback(logp2, name)
        if not pbs:
            inconclusive.append((name, f"failed checks {descs} but no playback produced"))
            continue
        rel = build_replay(h["crate"], True)
        dev = build_replay(h["crate"], False)
        if not rel or not dev:
            inconclusive.append((name, "replay binary did not build"))
            continue
        repro_rel = repro_dev = None
        for draws in pbs:
            rc_r, out_r = run_replay(rel, name, draws)
            rc_d, out_d = run_replay(dev, name, draws)
            if rc_r == 1:
                repro_rel = (draws, out_r)
            if rc_d == 1:
                repro_dev = (draws, out_d)
            if repro_rel:
                break
        if repro_rel:
            kf = known_match(known, prop, name, descs)
            os.makedirs(os.path.join(ROOT, "evidence", "replay"), exist_ok=True)
            rp = os.path.join(ROOT, "evidence", "replay", f"{prop}-{name}.json")
            json.dump(dict(property=prop, harness=name, crate=h["crate"], case=h["case"],
                           failed_checks=descs, draws=repro_rel[0],
                           replay_cmd=f"{rel} {name} " + "/".join(",".join(map(str, d)) for d in repro_rel[0]),
                           native_output=repro_rel[1]), open(rp, "w"), indent=1)
            if kf:
                known_lines.append(f"KNOWN-FINDING: property={prop} {kf['what']} (harness {name})")
            else:
                violations.append((name, rp, descs))
        elif repro_dev:
            dev_only.append((name, descs))
        else:
            inconclusive.append((name, f"solver model for {descs} did not reproduce natively "
                                       f"(encoding/stub error)"))

    # ---- evidence
    tot_vcc = sum(int(r["stats"].get("vccs_generated") or 0) for r in results.values())
    rem_vcc = sum(int(r["stats"].get("vccs_remaining") or 0) for r in results.values())
    solver_s = sum(float(r["stats"].get("runtime_solver_s") or 0) for r in results.values())
    symex_s = sum(float(r["stats"].get("runtime_symex_s") or 0) for r in results.values())
    nprops = sum(int(r["props"].get("total_properties") or 0) for r in results.values())
    covers = sum(int(r["props"].get("satisfied") or 0) for r in results.values())
    fns = {}
    for h in hs:
        for f in ([h["fn"]] if isinstance(h.get("fn"), str) else h.get("fn", [])):
            fns[f] = True
    srcs = {}
    for crate in by_crate:
        for rel in H.CRATE_INFO[crate].get("sources", []):
            srcs[rel] = sha(os.path.join(REPO, rel))
    samples = [dict(harness=h["name"], case=h["case"], result=results.get(h["name"], {}).get("status"),
                    solver_s=results.get(h["name"], {}).get("stats", {}).get("runtime_solver_s"))
               for h in hs[:: max(1, len(hs) // 12)]][:14]
    for (n, rp, d) in violations:
        samples.append(dict(harness=n, violation=d, replay=rp))
    obl = sum(r["obl"] for r in results.values())
    obl_ok = sum(r["obl_ok"] for n, r in results.items() if n in passed)
    steps = sum(int(r["stats"].get("size_program_expression") or 0) for r in results.values())
    coverage = dict(
        evaluations=obl,
        distinct_nontrivial=obl_ok,
        rule="evaluations = property obligations put to the solver: assertion sites written in the harness "
             "bodies under /verif/kani/*/src (oracle comparisons, round-trip and range claims), one per site per "
             "harness, each decided by CBMC/cadical for ALL symbolic inputs of that harness; generic "
             "memory-safety/overflow checks inside library code are decided too but not counted here "
             "(see cbmc_properties_checked). distinct_nontrivial = those obligations that came back SUCCESS in a "
             "harness whose kani::cover! reachability witnesses were all satisfied (so the assertion site is "
             "reached, the proof is not vacuous).",
        samples=samples,
        states=max(steps, 1),
        transitions=max(tot_vcc, 1),
        traces_validated_against_impl=len(violations) + len(known_lines) + len(dev_only),
        states_transitions_meaning="states = SSA steps of CBMC's symbolic execution summed over harnesses "
                                   "(size of program expression); transitions = verification conditions generated; "
                                   "traces_validated_against_impl = solver counterexamples replayed natively",
        exhaustive=False,
        technique="bounded model checking of the compiled Rust (Kani 0.68 -> CBMC 6.11 -> cadical)",
        harnesses_run=len(results), harnesses_passed=len(passed),
        inconclusive=[dict(harness=n, why=w) for n, w in inconclusive],
        dev_profile_only=[dict(harness=n, checks=d) for n, d in dev_only],
        failed_not_replayed=[dict(harness=n, checks=d) for n, d in unreplayed],
        known_findings_hit=known_lines,
        cbmc_properties_checked=nprops, cover_witnesses_satisfied=covers,
        vccs_generated=tot_vcc, vccs_after_simplification=rem_vcc,
        solver_time_s=round(solver_s, 1), symex_time_s=round(symex_s, 1),
        functions_encoded=sorted(fns), source_sha256_16=srcs,
        bounds=H.BOUNDS.get(prop, {}).get(tier, H.BOUNDS.get(prop, {}).get("all", "")),
        outside_claim=H.BOUNDS.get(prop, {}).get("outside", ""),
        per_harness_cap_s=cap,
    )
    assumptions = H.ASSUMPTIONS.get(prop, [])
    write_evidence(prop, tier, seed, LEVEL[prop], coverage, assumptions, time.time() - t0, len(violations))

    for line in known_lines:
        print(line)
    for (n, d) in dev_only:
        log(f"NOTE {prop} {n}: {d} reproduces only in the dev profile (overflow checks); "
            f"not a violation of the release build")
    if violations:
        for (n, rp, d) in violations:
            print(f"VIOLATION property={prop} replay={rp}")
            log(f"  harness {n}: {d}")
        return 1
    if unreplayed and not violations:
        inconclusive.extend((n, f"failed {d}, not replayed") for n, d in unreplayed)
    if inconclusive or build_fail:
        for n, w in inconclusive:
            log(f"INCONCLUSIVE {prop} {n}: {w}")
        return 2
    print(f"OK property={prop} tier={tier} harnesses={len(passed)} solver_s={solver_s:.1f}")
    return 0


def main():
    ap = argparse.ArgumentParser()
    ap.add_argument("prop")
    ap.add_argument("--tier", default=os.environ.get("VERIF_TIER", "quick"), choices=["quick", "thorough"])
    ap.add_argument("--only", default="")
    ap.add_argument("--replay", default="", help="re-run one recorded counterexample (evidence/replay/*.json) natively")
    ap.add_argument("--jobs", type=int, default=int(os.environ.get("VERIF_JOBS", "16")))
    a = ap.parse_args()
    seed = int(os.environ.get("VERIF_SEED", "0") or 0)
    only = [x for x in a.only.split(",") if x]
    try:
        if a.replay:
            import tv_check
            rc = tv_check.replay_file(a.prop, a.replay)
            if rc is None:
                # Kani properties: the file records the native replay command of the harness
                d = json.load(open(a.replay))
                cmd = d.get("replay_cmd")
                if not cmd:
                    log("replay: no replay_cmd in", a.replay)
                    rc = 2
                else:
                    import re as _re
                    mm = _re.search(r"/([^/ ]+)-native/(release|debug)/replay", cmd)
                    if mm:
                        build_replay(mm.group(1), mm.group(2) == "release")
                    p = subprocess.run(cmd, shell=True, capture_output=True, text=True)
                    log(p.stdout[-400:], p.stderr[-400:])
                    if p.returncode != 0:
                        print(f"VIOLATION property={a.prop} replay={a.replay}")
                        rc = 1
                    else:
                        print(f"OK property={a.prop} replay does not reproduce on the current tree")
                        rc = 0
        elif a.prop == "C19":
            import tv_check
            rc = tv_check.run_c19(a.tier, seed, write_evidence, only)
        elif a.prop == "C03":
            import tv_check
            rc = tv_check.run_c03(a.tier, seed, write_evidence, only)
        elif a.prop == "C18":
            import tv_check
            # (a) wide_* helpers by Kani, (b) the Cranelift IR the JIT emits vs RTL terms by SMT miters
            konly = [o for o in only if o.startswith("c18_")]
            tonly = [o for o in only if not o.startswith("c18_")]
            rc_a = kani_property("C18", a.tier, konly, a.jobs, seed) if (konly or not only) else 0
            rc_b, cov = tv_check.run_c18_tv(a.tier, seed, tonly or None) if (tonly or not only) else (0, {})
            evp = os.path.join(ROOT, "evidence", "C18.json")
            if os.path.exists(evp) and cov:
                ev = json.load(open(evp))
                ev["coverage"].update(cov)
                if rc_b == 1:
                    ev["violations"] = ev.get("violations", 0) + 1
                json.dump(ev, open(evp, "w"), indent=1)
            rc = 1 if 1 in (rc_a, rc_b) else (2 if 2 in (rc_a, rc_b) else 0)
        elif a.prop == "C21":
            import tv_check
            # (a) pattern algebra by Kani, (b) the real rewrite/techmap passes by SAT miters per corpus design
            konly = [o for o in only if o.startswith("c21_")]
            tonly = [o for o in only if not o.startswith("c21_")]
            rc_a = kani_property("C21", a.tier, konly, a.jobs, seed) if (konly or not only) else 0
            rc_b, cov = tv_check.run_c21_tv(a.tier, seed, tonly or None) if (tonly or not only) else (0, {})
            evp = os.path.join(ROOT, "evidence", "C21.json")
            if os.path.exists(evp) and cov:
                ev = json.load(open(evp))
                ev["coverage"].update(cov)
                if rc_b == 1:
                    ev["violations"] = ev.get("violations", 0) + 1
                json.dump(ev, open(evp, "w"), indent=1)
            rc = 1 if 1 in (rc_a, rc_b) else (2 if 2 in (rc_a, rc_b) else 0)
        elif a.prop in H.KANI_PROPS:
            rc = kani_property(a.prop, a.tier, only, a.jobs, seed)
        else:
            log("unknown property", a.prop)
            rc = 2
    except Exception:  # noqa: BLE001  -- a crash of the driver is never a verdict
        import traceback
        traceback.print_exc()
        rc = 2
    sys.exit(rc)


if __name__ == "__main__":
    main()
