"""Claimed properties (read by mk_manifest.py).  A property is listed here only
once its check has been run to completion on the unchanged tree."""

KANI = "bounded model checking of the compiled Rust (Kani 0.68 -> CBMC 6.11 -> cadical SAT), symbolic inputs, native replay of counterexamples"

CLAIMED = {
    "C17": dict(
        level="model_checking", engine="kani-cbmc", technique=KANI,
        text="For the <=64-bit value representation, every arm of the analyzer's constant evaluator "
             "(Op::eval_value_unary / eval_value_binary, the same function the interpreter calls) is compared with "
             "an independent bit-level IEEE 1800-2017 11.4 reference for ALL payloads, x/z masks and signedness "
             "flags at each listed context width: the SAT solver either proves the comparison for every value or "
             "returns operands, which are replayed natively. Widths/operand-width combinations are a stated, "
             "finite table (quick: 1,33,64; thorough: every width 1..64); this is bounded model checking, not a "
             "proof over all widths.",
        note="Outside the claim: the BigUint representation (>64 bits) and the small/big agreement clause (Kani "
             "does not terminate on num-bigint); Mul/Div/Rem with both operands symbolic only up to 16/12 bits, "
             "above that one operand is reduced to a 4-bit window; `**` only for negative exponents; width/type "
             "inference (eval_type_*). Trusted: the reference in kani/analyzer-k/src/oracle.rs, Kani/CBMC, the "
             "caller contract 'signed context => signed operands', HashMap RandomState stub, cut-off stubs that "
             "assert the BigUint arms are unreachable from 64-bit operands.",
        design_ref="DESIGN.md 2 (C17)"),
    "C18": dict(
        level="model_checking", engine="kani-cbmc",
        technique=KANI + "; plus translation validation of the Cranelift IR the JIT emits (CLIF -> SMT, z3) against "
                         "word-level RTL terms, replayed natively JIT-vs-interpreter",
        text="(a) The 25 multi-word helpers of simulator/src/wide_ops.rs (run-time kernel above 128 bits) are executed "
             "symbolically on exact-size, misaligned buffers and compared with a reference that carries at bit 128 "
             "instead of at 64-bit limbs, for ALL limb contents and shift amounts at 2 and 3 limbs (thorough: 1..4) and "
             "every width whose top bit lies in the top limb; CBMC's pointer checks decide the no-over-read clauses. "
             "(b) For ~540 comb-only designs (random comb programs, DESIGN 6.12; every operator x widths 1..128 x signedness, shift amounts reaching and "
             "exceeding the width, mixed widths, ternaries, concatenations) the Cranelift IR the REAL JIT front end "
             "emits is given a bit-vector semantics and z3 decides, for ALL input values, that the stored outputs "
             "equal the RTL terms; a model is replayed on the real JIT engine against the real interpreter; IR the encoder "
             "cannot type is replayed for an engine crash. Two recorded findings are re-run natively on every run "
             "(KNOWN-FINDING lines). "
             "(c) Interpreter evaluation at <=64 bits is the C17 kernel (same function).",
        note="Outside the claim: what Cranelift does below its IR (instruction selection, register allocation), the "
             "AOT-C back end, sequential/hierarchical designs and designs using the wide_* helper calls in the CLIF "
             "check (comb-only, <=128-bit subset of tv/clif.py), interpreter evaluation above 64 bits (BigUint); "
             "wide_mul with both operands symbolic only at 1 limb. Assumes the documented precondition 'operands "
             "zero-padded above width' and that buffer cells hold width-clean values.",
        design_ref="DESIGN.md 2 (C18), 6.6"),
    "C36": dict(
        level="model_checking", engine="kani-cbmc", technique=KANI,
        text="DPI svLogicVecVal <-> Value conversion is checked bit by bit against the IEEE 1800 Annex H table "
             "(0=00,1=10,Z=01,X=11 as aval/bval) and for lossless round trips, and the VCD/FST digit functions "
             "against the same 4-state table, for ALL 4-state values at each listed width <= 64.",
        note="Outside the claim: widths > 64 (BigUint), and the second clause of the property -- that the waveform "
             "writers record exactly what the simulator holds (file I/O over the whole variable table).",
        design_ref="DESIGN.md 2 (C36)"),
    "C06": dict(
        level="model_checking", engine="kani-cbmc", technique=KANI,
        text="The window-relative ID codec that every cached fragment relies on (IdWindow::encode, "
             "IdRebase::decode, and the Serialize/Deserialize impls of TokenId, TextId, SymbolId, DefinitionId "
             "with the sentinel-0 shift) is decided for ALL usize windows, ids and rebase offsets: accepted "
             "exactly inside the window, refused outside (capture-time refusal), rebasing preserves offset, order "
             "and injectivity, sentinel 0 never collides, passthrough without a session.",
        note="Outside the claim: that every ID-bearing field of every symbol kind goes through this codec, and "
             "equality of analyzer state after restore (postcard walks over global HashMap tables fed by the "
             "parser). Parser-side thread-local session storage is replaced by an equivalent static cell (Kani "
             "0.68 cannot compile TLS destructors); error strings stubbed.",
        design_ref="DESIGN.md 2 (C06)"),
    "C16": dict(
        level="model_checking", engine="kani-cbmc", technique=KANI,
        text="The clock-domain relation the CDC checker consults (ClockDomain::compatible/merge/domain_id) is "
             "decided for every triple of domains: a crossing is reported exactly for two different ids or an id "
             "against the implicit domain, explicit and inferred annotations are interchangeable, merge keeps the "
             "concrete domain and never launders a crossing.",
        note="Outside the claim: domain inference/propagation through expressions, instances and interface "
             "members, the unsafe(cdc) lookup, and that the checker is called at every assignment/connection "
             "(syntax-tree driven analyzer code, not symbolically executable).",
        design_ref="DESIGN.md 2 (C16)"),
    "C32": dict(
        level="model_checking", engine="kani-cbmc", technique=KANI,
        text="For the $tb random handles (a verbatim copy of simulator/src/random_table.rs compiled with the "
             "harness as a child module): every range draw has the requested width/signedness and lies within its "
             "bounds, interpreted at that width and signedness, for ALL min/max/sampler results at each width "
             "listed (quick: 8 widths, thorough: 1..64); the sampler is never called with an empty range; a handle's "
             "seed is FNV-1a of (base seed bytes ++ handle name) for four fixed base seeds and every name of up to two "
             "bytes.",
        note="Outside the claim: worker-pool dispatch order, captured output and verdict stability (threads and "
             "processes). rand/rand_pcg are contract-only stand-ins (random_range returns an arbitrary value of "
             "the requested range and panics on an empty one); the generator lookup (thread-local HashMap) is "
             "bypassed, so the per-handle generator table (get_seed_handle/seed_handle/reset) is outside the claim; a "
             "symbolic base seed does not finish in the SAT back end (ten chained 64-bit constant multiplications).",
        design_ref="DESIGN.md 2 (C32)"),
    "C21": dict(
        level="model_checking", engine="kani-cbmc",
        technique=KANI + "; plus translation validation of the real aig passes (AIG and netlist SAT miters, z3)",
        text="(a) The NPN pattern algebra the AIG rewriter relies on (the real aig/npn4.rs): perm_tt, flip_inputs and "
             "NpnTransform::apply are the defining variable substitutions for ALL truth tables, AigPattern::tt is "
             "the function of the pattern's DAG, and transform_pattern(p,t).tt() == t.apply(p.tt()) for EVERY "
             "pattern with 0..3 AND nodes and every one of the 768 transforms. (b) With the synthesizer built with "
             "--features aig, for ~630 corpus modules the real aigify -> rewrite -> aig_to_cells_techmap (and the "
             "plain round trip) are run and z3 decides that every sink of the rewritten AIG and every output / "
             "flip-flop D / RAM pin of the re-mapped netlist computes the same Boolean function, for all inputs and "
             "states; a model is re-evaluated natively on the dumped objects.",
        note="Outside the claim: that npn_canonical returns the LEAST table of the class and that every library entry "
             "computes its recorded table, as standalone statements (24x65536-entry table / ~8e5-program enumeration "
             "at first use: not symbolically executable; their use inside rewrite IS covered by (b) for the corpus). "
             "The quantifier over netlists is the corpus.",
        design_ref="DESIGN.md 2 (C21), 6.7"),
    "C03": dict(
        level="translation_validation", engine="tv-miter",
        technique="translation validation per optimisation-toggle set: the Cranelift IR the real simulator emits under each "
                  "environment (fresh process per set) is given a bit-vector semantics and compared by z3 with one "
                  "toggle-independent word-level RTL term, for all inputs; models are replayed on the real simulator "
                  "(JIT and interpreter) with and without the toggles",
        text="For ~440 comb-only single-module designs (random comb programs, see DESIGN 6.12, plus shapes written for each pass: single-reader `let` chains, dead and "
             "duplicate definitions, base-write + guarded overrides, >= 8-arm selector chains (LUT mode), bit-wise "
             "transposition/assembly, case decoding, wide selectors, element-wise array lanes, chain inputs rewritten inside a "
             "version-split span; plus the comb designs of the C19 corpus) the real "
             "build_ir pipeline is run under: the default, each of the ten toggles named in the property switched off, "
             "all ten off, and seeded random subsets (quick 4, thorough 32, plus the 7 per-stage levers). For every "
             "design x toggle set z3 decides that every output port the emitted IR stores equals the same RTL term for "
             "ALL input values and ALL previous buffer contents; hence all toggle sets agree with each other. The check "
             "fails as inconclusive unless comb fusion, dead-variable DCE, version split, its LUT mode, comb layout and "
             "switch lowering each changed the emitted IR of at least one design (non-vacuity).",
        note="Outside the claim: designs with registers or instances -- so cone gating (needs a module subtree) and "
             "conditional hoisting (needs $display in an event block) never fire, and lane vectorisation fires on none of "
             "the designs (its candidates are variables that are not user-visible, which single-module designs do not "
             "have); $display output and test verdicts; the interpreter's execution of the optimised statements (only "
             "replayed, not encoded); Cranelift below its IR. The quantifier over programs is the corpus.",
        design_ref="DESIGN.md 6.10"),
    "C19": dict(
        level="translation_validation", engine="tv-miter",
        technique="translation validation: the real synthesizer's netlists vs word-level RTL terms and vs each other, "
                  "SAT/SMT miters decided by z3 for all inputs and all states, native replay of counterexamples",
        text="Per corpus design the real parser, analyzer and synthesizer are run and z3 decides (1) that the gate "
             "netlist (cells, flip-flops with reset value/edge, inferred RAM blocks) computes, for EVERY input and EVERY "
             "state, the same outputs and next state as an independent word-level statement of the RTL semantics "
             "(one-step induction => input sequences of any length; bounded unrolling from reset otherwise), and (2) "
             "that every cell library x RAM-inference threshold x restructure setting yields an equivalent netlist. A "
             "model is replayed on the repository's interpreter and the freshly synthesized netlist before it is "
             "reported. The quantifier over programs is the corpus (about 480 files incl. 48 random comb programs, ~700 "
             "modules conclusive, module instances inlined), not all "
             "designs.",
        note="Outside the claim: designs outside the RTL-term subset (functions, struct/array literals, instances in "
             "generate blocks or with element-wise array connections, several clocks, block-local temporaries in "
             "always_ff, >4096 state bits) are only covered by the "
             "configuration miter; 4-state behaviour; division by zero and out-of-range dynamic indices are assumed "
             "away. Trusted: the CellKind truth table and FF/RAM step semantics in tv/miter.py, the RTL term builder "
             "tv/tvdump/src/rtl.rs (validated on the unchanged tree by agreeing with the netlists of ~700 modules, with "
             "the Cranelift IR of ~540 designs, and "
             "by native replay), z3.",
        design_ref="DESIGN.md 2 (C19)"),
}
