#!/bin/bash
# usage: try_seed.sh <seed-id> <PROP> [extra check.py args]  -- apply to /repo, run quick check, undo
sid=$1; prop=$2; shift 2
cd /verif
git -C /repo apply /verif/seeded/$sid/patch.diff || { echo "apply failed"; exit 9; }
python3-vt run/check.py $prop --tier quick "$@" > .target/seed_$sid.out 2> .target/seed_$sid.err; rc=$?
git -C /repo checkout -- .
git -C /verif checkout -- evidence 2>/dev/null
git -C /verif clean -fdq evidence/replay 2>/dev/null   # replay files written by the seeded run are not evidence of the real tree
echo "$sid rc=$rc $(grep -c VIOLATION .target/seed_$sid.out) violation lines; $(grep -m3 VIOLATION .target/seed_$sid.out | tr '\n' ' ')"
tail -2 .target/seed_$sid.err
# rebuild the helper binaries from the restored tree so later manual experiments do not use a seeded build
(cd /verif/tv/tvdump && CARGO_NET_OFFLINE=true cargo build --target-dir /verif/.target/tvdump >/dev/null 2>&1)
