"""Harness tables.  One entry = one #[kani::proof]; the Rust entry points and
the native replay registry (gen.rs of each harness crate) are generated from
these tables, so the table *is* the stated bound of each check.

An entry: dict(name, crate, prop, body, unwind, tiers, case, [stubs], [cap_s])
  body   Rust expression using `s` (a &mut impl Src)
  tiers  subset of {"quick","thorough"}
  case   human-readable description of what is concrete/symbolic (goes to evidence)
"""

QUICK_W = [1, 33, 64]          # binary operators (4 operand-width combos each), one harness per operator
QUICK_UN_W = [1, 2, 33, 63, 64]  # unary operators (cheaper)
ALL_W = list(range(1, 65))

# (short name, veryl Op variant, oracle variant)
C17_BIN = [
    ("add", "Add", "Add"), ("sub", "Sub", "Sub"),
    ("and", "BitAnd", "And"), ("or", "BitOr", "Or"), ("xor", "BitXor", "Xor"), ("xnor", "BitXnor", "Xnor"),
    ("eq", "Eq", "Eq"), ("ne", "Ne", "Ne"), ("eqw", "EqWildcard", "EqWild"), ("new", "NeWildcard", "NeWild"),
    ("gt", "Greater", "Gt"), ("ge", "GreaterEq", "Ge"), ("lt", "Less", "Lt"), ("le", "LessEq", "Le"),
    ("land", "LogicAnd", "LAnd"), ("lor", "LogicOr", "LOr"),
    ("shl", "LogicShiftL", "Shl"), ("shr", "LogicShiftR", "Shr"),
    ("ashl", "ArithShiftL", "AShl"), ("ashr", "ArithShiftR", "AShr"),
]
C17_HARD = [("mul", "Mul", "Mul"), ("div", "Div", "Div"), ("rem", "Rem", "Rem")]
C17_UN = [
    ("uplus", "Add", "Plus"), ("uminus", "Sub", "Minus"), ("unot", "BitNot", "Not"),
    ("rand", "BitAnd", "RAnd"), ("rnand", "BitNand", "RNand"), ("ror", "BitOr", "ROr"),
    ("rnor", "BitNor", "RNor"), ("rxor", "BitXor", "RXor"), ("rxnor", "BitXnor", "RXnor"),
    ("lnot", "LogicNot", "LNot"),
]

RS_STUB = "std::hash::RandomState::new, crate::stub_random_state"
# cut-off stubs: assert the Value::BigUint arms are never entered from 64-bit operands, then stop the path
CUT_STUBS = [
    "<veryl_analyzer::value::ValueBigUint as std::clone::Clone>::clone, crate::cut::clone",
    "veryl_analyzer::value::MaskCache::get, crate::cut::mask_get",
    "veryl_analyzer::value::ValueBigUint::is_xz, crate::cut::is_xz",
    "veryl_analyzer::value::ValueBigUint::payload, crate::cut::payload",
    "veryl_analyzer::value::ValueBigUint::mask_xz, crate::cut::mask_xz",
    "veryl_analyzer::value::ValueBigUint::to_bigint, crate::cut::to_bigint",
]


def tiers_for(w):
    return {"quick", "thorough"} if w in QUICK_W else {"thorough"}


FULL_MUL_W = list(range(1, 17))     # symbolic x symbolic multiplier: decided up to 16 bits
FULL_DIV_W = list(range(1, 13))     # symbolic / symbolic divider: decided up to 12 bits


def chunks(lst, n):
    return [lst[i:i + n] for i in range(0, len(lst), n)]


def c17():
    """quick: one harness per operator covering the boundary widths; thorough: every width 1..64 in
    groups of four consecutive widths per harness (per-harness tool overhead is ~25 s, symex per case ~1 s)."""
    out = []
    stubs = [RS_STUB] + CUT_STUBS

    def wl(ws):
        return "&[" + ", ".join(str(w) for w in ws) + "]"

    def tag(ws):
        return "w" + "_".join(str(w) for w in ws) if len(ws) <= 3 else f"w{ws[0]}to{ws[-1]}"

    def add_bin(n, op, ob, ws, tiers):
        out.append(dict(
            name=f"c17_{n}_{tag(ws)}", crate="analyzer-k", prop="C17", unwind=max(6, len(ws) + 2),
            body=f"c17::bin_table(s, Op::{op}, Bin::{ob}, {wl(ws)})", tiers=set(tiers), stubs=stubs,
            case=f"Op::{op}.eval_value_binary, context widths {ws}, operand widths (w,w),(1,w),(w,1),(ceil(w/2),w); "
                 f"payloads, x/z masks, signed flags symbolic",
            fn="veryl_analyzer::ir::Op::eval_value_binary"))

    def add_un(n, op, ou, ws, tiers):
        out.append(dict(
            name=f"c17_{n}_{tag(ws)}", crate="analyzer-k", prop="C17", unwind=max(6, len(ws) + 2),
            body=f"c17::un_table(s, Op::{op}, Un::{ou}, {wl(ws)})", tiers=set(tiers), stubs=stubs,
            case=f"Op::{op}.eval_value_unary, widths {ws} (operand widths w, 1, ceil(w/2)); payload, x/z mask, "
                 f"signed flags symbolic",
            fn="veryl_analyzer::ir::Op::eval_value_unary"))

    for (n, op, ob) in C17_BIN:
        add_bin(n, op, ob, QUICK_W, {"quick"})
        for ws in chunks(ALL_W, 4):
            add_bin(n, op, ob, ws, {"thorough"})
    for (n, op, ob) in C17_HARD:
        full = FULL_MUL_W if n == "mul" else FULL_DIV_W
        add_bin(n, op, ob, [2, 8], {"quick"})
        for ws in chunks(full, 2):
            add_bin(n, op, ob, ws, {"thorough"})
    for (n, op, ou) in C17_UN:
        add_un(n, op, ou, QUICK_UN_W, {"quick"})
        for ws in chunks(ALL_W, 4):
            add_un(n, op, ou, ws, {"thorough"})
    for w in ALL_W:
        if w < 17:
            continue
        for pos in sorted({0, w // 2, w - 4}):
            for swap in (False, True):
                q = (w == 64 and pos == 60 and not swap) or (w == 33 and pos == 0 and swap)
                out.append(dict(
                    name=f"c17_mulsparse_w{w}_p{pos}_{'yx' if swap else 'xy'}", crate="analyzer-k", prop="C17",
                    unwind=6, body=f"c17::mul_sparse(s, {w}, {pos}, {'true' if swap else 'false'})",
                    tiers={"quick", "thorough"} if q else {"thorough"}, stubs=stubs,
                    case=f"Op::Mul at width {w}: one operand fully symbolic (4-state), the other a symbolic 4-bit "
                         f"value at bit {pos} (reduced bound: symbolic x symbolic is SAT-hard above 16 bits)",
                    fn="veryl_analyzer::ir::Op::eval_value_binary"))
    for w in ALL_W:
        if w < 13:
            continue
        for pos in sorted({0, w // 2, w - 4}):
            for sg in (False, True):
                q = w == 33 and ((pos == 29 and sg) or (pos == 0 and not sg))   # w64 costs 3-5 min of SAT each
                out.append(dict(
                    name=f"c17_divrem_w{w}_p{pos}_{'s' if sg else 'u'}", crate="analyzer-k", prop="C17",
                    unwind=6, body=f"c17::divrem_sparse(s, {w}, {pos}, {'true' if sg else 'false'})",
                    tiers={"quick", "thorough"} if q else {"thorough"}, stubs=stubs,
                    case=f"Op::Div and Op::Rem at width {w} ({'signed' if sg else 'unsigned'}): dividend fully "
                         f"symbolic (4-state), divisor a symbolic 4-bit value at bit {pos} (sign-filled above when "
                         f"negative); checked by q*y+r==x, |r|<|y|, sign(r)=sign(x) (reduced bound)",
                    fn="veryl_analyzer::ir::Op::eval_value_binary"))
    for w in ALL_W:
        for yw in (2, 8):   # a wide symbolic exponent drags BigUint::modpow into the symbolic execution
            q = (w, yw) in ((8, 2), (64, 8), (1, 8))
            out.append(dict(
                name=f"c17_pownegexp_w{w}_e{yw}", crate="analyzer-k", prop="C17", unwind=6,
                body=f"{{ let mut mc = veryl_analyzer::value::MaskCache::default(); "
                     f"c17::pow_neg_case(s, &mut mc, {w}, {yw}); std::mem::forget(mc); }}",
                tiers={"quick", "thorough"} if q else {"thorough"},
                stubs=stubs + ["veryl_analyzer::ir::op::pow_mod_width, crate::cut::pow_mod_width"],
                case=f"Op::Pow with a negative exponent (signed {yw}-bit, MSB set): base width {w}, base payload, "
                     f"x/z mask, signedness and exponent symbolic (IEEE 1800 Table 11-4)",
                fn="veryl_analyzer::ir::Op::eval_value_binary"))
    return out


FMT_STUB = "alloc::fmt::format, crate::stub_format"


def c06():
    mk = lambda n, body, case, fn: dict(  # noqa: E731
        name=n, crate="analyzer-k", prop="C06", unwind=4, body=body, tiers={"quick", "thorough"},
        stubs=[RS_STUB, FMT_STUB, "veryl_parser::resource_table::insert_str, crate::intern_stub::insert_str",
               "veryl_parser::resource_table::insert_path, crate::intern_stub::insert_path"], case=case, fn=fn)
    pcs = [f"veryl_parser::fragment_codec::{f}, crate::pc_cell::{f}"
           for f in ("begin_encode", "end_encode", "begin_decode", "end_decode", "with_encode", "with_decode")]
    hs = [
        mk("c06_window_rebase", "c06::window_rebase(s)",
           "IdWindow{start,end}, id, IdRebase{base}, second id, bogus local: all full-range usize/u64, symbolic",
           ["veryl_parser::fragment_codec::IdWindow::encode", "veryl_parser::fragment_codec::IdWindow::count",
            "veryl_parser::fragment_codec::IdRebase::decode"]),
        mk("c06_parser_ids", "c06::parser_ids(s)",
           "TokenId/TextId serde impls through begin_encode/begin_decode sessions; windows, ids, bases symbolic",
           ["<veryl_parser::resource_table::TokenId as Serialize/Deserialize>",
            "<veryl_parser::text_table::TextId as Serialize/Deserialize>",
            "veryl_parser::fragment_codec::{begin_encode,end_encode,begin_decode,end_decode}"]),
        mk("c06_analyzer_ids", "c06::analyzer_ids(s)",
           "SymbolId/DefinitionId serde impls with sentinel-0 shift; windows, ids, bases symbolic",
           ["<veryl_analyzer::symbol::SymbolId as Serialize/Deserialize>",
            "<veryl_analyzer::definition_table::DefinitionId as Serialize/Deserialize>",
            "veryl_analyzer::fragment_codec::{encode_sentinel,decode_sentinel,begin_*,end_*}"]),
    ]
    hs[1]["stubs"] = hs[1]["stubs"] + pcs
    return hs


def c16():
    return [dict(
        name="c16_relation", crate="analyzer-k", prop="C16", unwind=4, body="c16::relation(s)",
        tiers={"quick", "thorough"}, stubs=[],
        case="three arbitrary ClockDomain values (variant x full-range SymbolId), all symbolic",
        fn=["veryl_analyzer::symbol::ClockDomain::compatible", "veryl_analyzer::symbol::ClockDomain::merge",
            "veryl_analyzer::symbol::ClockDomain::domain_id"])]


C36_QUICK_W = [1, 7, 31, 32, 33, 63, 64]


def c36():
    out = []
    for n in (1, 2):
        out.append(dict(
            name=f"c36_decode_{n}w", crate="analyzer-k", prop="C36", unwind=4,
            body=f"c36::decode_words(s, {n})", tiers={"quick", "thorough"}, stubs=[],
            case=f"{n} svLogicVecVal word(s), aval/bval fully symbolic, symbolic bit index",
            fn=["<veryl_analyzer::value::Value as From<&[SvLogicVecVal]>>::from",
                "<Vec<SvLogicVecVal> as From<&Value>>::from"]))
    for w in ALL_W:
        t = {"quick", "thorough"} if w in C36_QUICK_W else {"thorough"}
        out.append(dict(
            name=f"c36_encode_w{w}", crate="analyzer-k", prop="C36", unwind=4,
            body=f"c36::encode_width(s, {w})", tiers=t, stubs=[],
            case=f"width {w}: payload, x/z mask, signed flag, bit index symbolic",
            fn=["<Vec<SvLogicVecVal> as From<&Value>>::from",
                "<veryl_analyzer::value::Value as From<&[SvLogicVecVal]>>::from"]))
        out.append(dict(
            name=f"c36_vcd_w{w}", crate="analyzer-k", prop="C36", unwind=4,
            body=f"c36::dump_digits(s, {w})", tiers=t, stubs=[],
            case=f"width {w}: payload, x/z mask, bit index symbolic",
            fn=["veryl_analyzer::value::Value::to_vcd_value"]))
    for w in [1, 2, 3, 4, 5, 7, 8, 9, 12, 16]:
        t = {"quick", "thorough"} if w in (1, 3, 8) else {"thorough"}
        out.append(dict(
            name=f"c36_fst_w{w}", crate="analyzer-k", prop="C36", unwind=w + 2,
            body=f"c36::fst_bits(s, {w})", tiers=t, stubs=[],
            case=f"width {w}: payload, x/z mask, bit index symbolic (Vec<u8> of length w)",
            fn=["veryl_analyzer::value::Value::to_fst_bits"]))
        out.append(dict(
            name=f"c36_vcditer_w{w}", crate="analyzer-k", prop="C36", unwind=w + 2,
            body=f"c36::vcd_iter(s, {w})", tiers=t, stubs=[],
            case=f"width {w}: payload, x/z mask symbolic; every yielded digit compared",
            fn=["<veryl_analyzer::value::VcdValueIter as Iterator>::next"]))
    return out


C18_SIZES = {8: {"thorough"}, 16: {"quick", "thorough"}, 24: {"quick", "thorough"}, 32: {"thorough"}}
WIDE_FNS = "veryl_simulator::wide_ops::"


def c18():
    out = []

    def mk(name, body, tiers, case, fns, unwind=6, cap=None):
        unwind = max(unwind, 10)   # the harness's own byte loops (8 per limb) need 9
        d = dict(name=name, crate="analyzer-k", prop="C18", unwind=unwind, body=body, tiers=set(tiers),
                 stubs=[], case=case, fn=[WIDE_FNS + f for f in fns])
        if cap:
            d["cap_s"] = cap
        out.append(d)

    for nb, tiers in C18_SIZES.items():
        g = f"::<{nb}, {nb + 4}>"
        n = nb // 8
        for (nm, var, fn) in [("band", "And", "wide_band"), ("bor", "Or", "wide_bor"), ("bxor", "Xor", "wide_bxor"),
                              ("bxornot", "XorNot", "wide_bxor_not"), ("bandnot", "AndNot", "wide_band_not"),
                              ("add", "Add", "wide_add"), ("sub", "Sub", "wide_sub")]:
            mk(f"c18_{nm}_nb{nb}", f"c18::binop{g}(s, c18::B2::{var})", tiers,
               f"{fn}: {n} limb(s), both operands fully symbolic, misaligned exact-size buffers", [fn], unwind=n + 2)
        for (nm, var, fn) in [("bnot", "Not", "wide_bnot"), ("negate", "Neg", "wide_negate"), ("copy", "Copy", "wide_copy")]:
            mk(f"c18_{nm}_nb{nb}", f"c18::unop{g}(s, c18::U1::{var})", tiers,
               f"{fn}: {n} limb(s), operand fully symbolic", [fn], unwind=n + 2)
        mk(f"c18_compare_nb{nb}", f"c18::compare{g}(s)", tiers,
           f"wide_eq/ne/ucmp/is_nonzero/popcnt_parity: {n} limb(s), operands fully symbolic",
           ["wide_eq", "wide_ne", "wide_ucmp", "wide_is_nonzero", "wide_popcnt_parity"], unwind=n + 2)
        mk(f"c18_shifts_nb{nb}", f"c18::shifts{g}(s)", tiers,
           f"wide_shl/wide_lshr: {n} limb(s), operand and the full 64-bit amount symbolic",
           ["wide_shl", "wide_lshr"], unwind=n + 2)
        # width-carrying helpers: every width whose top bit lies in the top limb
        lo = 64 * (n - 1) + 1
        hi = 64 * n
        qw = {lo, lo + 1, hi - 1, hi}
        for w in range(lo, hi + 1):
            t = set(tiers) if w in qw else {"thorough"}
            mk(f"c18_widthed_nb{nb}_w{w}", f"c18::widthed{g}(s, {w})", t,
               f"wide_scmp/is_all_ones/apply_mask/fill_ones at width {w} in {n} limb(s); operands symbolic "
               f"(zero-padded above the width, the documented precondition)",
               ["wide_scmp", "wide_is_all_ones", "wide_apply_mask", "wide_fill_ones", "pack_nb_width"], unwind=n + 2)
            # the bit-fill loop is expensive: quick only at 2 limbs; thorough up to 3 limbs, at 3 limbs only the
            # boundary widths (the 4-limb instances exhaust memory under 16 parallel CBMC runs)
            if nb == 16 and w in (lo, lo + 1):
                ta = t
            elif nb <= 16 or (nb == 24 and w in qw):
                ta = {"thorough"}
            else:
                ta = set()
            mk(f"c18_ashr_nb{nb}_w{w}", f"c18::ashr{g}(s, {w})", ta,
               f"wide_ashr at width {w} in {n} limb(s); operand and full 64-bit amount symbolic",
               ["wide_ashr", "wide_lshr"], unwind=w + 2)
    # resize: narrower source in its own, shorter allocation
    for (snb, dnb, ws, tiers) in [(8, 16, [1, 33, 63, 64], {"thorough"}), (8, 24, [1, 64], {"quick", "thorough"}),
                                  (16, 24, [65, 100, 127, 128], {"quick", "thorough"}),
                                  (24, 16, [129, 192], {"thorough"}), (16, 32, [65, 128], {"thorough"}),
                                  (24, 32, [129, 191, 192], {"thorough"}), (24, 24, [0, 130, 192], {"quick", "thorough"})]:
        for w in ws:
            mk(f"c18_resize_{snb}to{dnb}_w{w}",
               f"c18::resize::<{snb}, {snb + 4}, {dnb}, {dnb + 4}>(s, {w})", tiers,
               f"wide_resize: {w}-bit value in an exact {snb}-byte allocation -> {dnb} bytes; value, signed flag, "
               f"previous destination contents symbolic", ["wide_resize", "sext_word"], unwind=6)
    for (nb, pairs, tiers) in [(24, [(129, 192), (192, 129), (130, 1), (64, 191)], {"quick", "thorough"}),
                               (16, [(65, 128), (128, 1), (100, 101)], {"thorough"}),
                               (32, [(193, 256), (256, 200)], {"thorough"})]:
        for (aw, bw) in pairs:
            mk(f"c18_scmpasym_nb{nb}_{aw}_{bw}", f"c18::scmp_asym::<{nb}, {nb + 4}>(s, {aw}, {bw})", tiers,
               f"wide_scmp_asym: widths {aw} vs {bw} in {nb}-byte buffers, operands symbolic",
               ["wide_scmp_asym", "sext_word"], unwind=6)
    for (anb, bnb, aw, bw, tiers) in [(24, 8, 192, 64, {"quick", "thorough"}), (8, 24, 33, 129, {"quick", "thorough"}),
                                      (16, 24, 128, 191, {"thorough"}), (32, 16, 255, 65, {"thorough"})]:
        mk(f"c18_scmpasym_short_{anb}_{bnb}_{aw}_{bw}",
           f"c18::scmp_asym_short::<{anb}, {anb + 4}, {bnb}, {bnb + 4}>(s, {aw}, {bw})", tiers,
           f"wide_scmp_asym: {aw}-bit operand in {anb} bytes vs {bw}-bit operand in its own {bnb}-byte allocation",
           ["wide_scmp_asym", "sext_word"], unwind=6)
    mk("c18_mul_nb8", "c18::mul_1limb(s)", {"quick", "thorough"},
       "wide_mul: 1 limb, both operands fully symbolic (64x64 -> low 64)", ["wide_mul"], unwind=3)
    for nb in (16, 24, 32):
        n = nb // 8
        poss = [0, 61, 64, 64 * n - 3] if nb != 32 else [0, 127, 253]
        for pos in poss:
            for swap in (False, True):
                t = {"quick", "thorough"} if (nb == 24 and pos in (61, 64 * n - 3)) or (nb == 16 and pos == 61 and not swap) else {"thorough"}
                mk(f"c18_mul_nb{nb}_p{pos}_{'ba' if swap else 'ab'}",
                   f"c18::mul_sparse::<{nb}, {nb + 4}>(s, {pos}, {'true' if swap else 'false'})", t,
                   f"wide_mul: {n} limbs, one operand fully symbolic, the other a symbolic 3-bit value at bit {pos} "
                   f"(operand order {'b*a' if swap else 'a*b'})", ["wide_mul"], unwind=n + 2)
    mk("c18_pack", "c18::pack_roundtrip(s)", {"quick", "thorough"},
       "pack_nb_width for all nb,width < 65536", ["pack_nb_width"], unwind=2)
    return out


def c32():
    out = []
    global C32_STUBS
    C32_STUBS = [RS_STUB, "veryl_parser::resource_table::get_str_value, crate::intern_stub::get_str_value",
                 "crate::simulator_spliced::random_table::with_rng, crate::stub_with_rng"]
    fns = ["veryl_simulator::random_table::get_range", "veryl_simulator::random_table::mask",
           "veryl_simulator::random_table::sign_extend", "veryl_simulator::random_table::with_rng",
           "veryl_simulator::random_table::reset"]
    for w in ALL_W:
        t = {"quick", "thorough"} if w in (1, 2, 8, 31, 32, 33, 63, 64) else {"thorough"}
        out.append(dict(
            name=f"c32_range_w{w}", crate="analyzer-k", prop="C32", unwind=20, body=f"c32::range_draw(s, {w})",
            tiers=t, stubs=C32_STUBS,
            case=f"get_range at width {w}: min, max (full u64), signed flag, base seed, handle id and the sampler's "
                 f"return value symbolic", fn=fns))
    for w in (1, 8, 63, 64):
        out.append(dict(
            name=f"c32_full_w{w}", crate="analyzer-k", prop="C32", unwind=20, body=f"c32::full_draw(s, {w})",
            tiers={"quick", "thorough"}, stubs=C32_STUBS,
            case=f"get at width {w}: signed flag, seed, handle, sample symbolic",
            fn=["veryl_simulator::random_table::get", "veryl_simulator::random_table::mask"]))
    out.append(dict(
        name="c32_seed_derivation", crate="analyzer-k", prop="C32", unwind=12,
        body="c32::seed_derivation(s, false)", tiers={"quick", "thorough"}, stubs=C32_STUBS,
        case="derive_seed(base, handle) for four fixed base seeds (0, 1, 0x0123456789abcdef, all-ones) and every handle "
             "name of 0..2 ASCII bytes (or no name): equals an independent FNV-1a over base bytes ++ name",
        fn=["veryl_simulator::random_table::derive_seed"]))
    return out


NPN = "veryl_synthesizer::aig::npn4::"


def c21():
    out = []
    for pi in range(24):
        q = {"quick", "thorough"} if pi in (0, 9, 23) else {"thorough"}
        out.append(dict(
            name=f"c21_ttperm_p{pi}", crate="analyzer-k", prop="C21", unwind=18, body=f"c21::tt_perm(s, {pi})",
            tiers=q, stubs=[],
            case=f"perm_tt for permutation #{pi}: two 16-bit truth tables and the minterm symbolic (substitution + "
                 f"homomorphism laws)", fn=[NPN + "perm_tt"]))
        out.append(dict(
            name=f"c21_ttops_p{pi}", crate="analyzer-k", prop="C21", unwind=18, body=f"c21::tt_ops(s, {pi})",
            tiers=q, stubs=[],
            case=f"flip_inputs/NpnTransform::apply for permutation #{pi}: truth table, minterm, in_neg, out_neg symbolic",
            fn=[NPN + "flip_inputs", NPN + "NpnTransform::apply", NPN + "perm_tt"]))
    for n in range(4):
        out.append(dict(
            name=f"c21_eval_a{n}", crate="analyzer-k", prop="C21", unwind=18, body=f"c21::eval_sound(s, {n})",
            tiers={"quick", "thorough"}, stubs=[],
            case=f"AigPattern::eval/tt for every pattern with {n} AND node(s): fan-in edges, output edge, minterm symbolic",
            fn=[NPN + "AigPattern::eval", NPN + "AigPattern::tt"]))
        for pi in range(24):
            quick = (n <= 1 and pi in (0, 9, 23)) or (n == 2 and pi in (9, 23)) or (n == 3 and pi == 14)
            out.append(dict(
                name=f"c21_transform_a{n}_p{pi}", crate="analyzer-k", prop="C21", unwind=18,
                body=f"c21::transform_sound(s, {n}, {pi})",
                tiers={"quick", "thorough"} if quick else {"thorough"}, stubs=[],
                case=f"transform_pattern soundness: every pattern with {n} AND node(s) (edges and output symbolic), "
                     f"permutation #{pi}, in_neg and out_neg symbolic",
                fn=[NPN + "transform_pattern", NPN + "NpnTransform::apply", NPN + "AigPattern::tt"]))
    return out


def all_harnesses():
    return c17() + c06() + c16() + c36() + c18() + c32() + c21()


def splice_random_table(crate_dir):
    """Verbatim copy of the real random_table.rs + one line mounting the harness as a child module."""
    import os
    src = open("/repo/crates/simulator/src/random_table.rs").read()
    new = src + "\n// ---- appended by /verif/run/harness_defs.py (nothing above this line is edited) ----\n" \
              + "#[path = \"../c32.rs\"]\npub mod verif;\n"
    d = os.path.join(crate_dir, "src", "spliced")
    os.makedirs(d, exist_ok=True)
    p = os.path.join(d, "random_table.rs")
    if not os.path.exists(p) or open(p).read() != new:
        open(p, "w").write(new)


KANI_PROPS = {"C17", "C18", "C36", "C06", "C16", "C32", "C21"}

CRATE_INFO = {
    "analyzer-k": dict(
        repo_lock=True, refresh_lock=True, prepare=splice_random_table,
        sources=["crates/synthesizer/src/aig/npn4.rs", "crates/simulator/src/wide_ops.rs", "crates/simulator/src/random_table.rs",
                 "crates/analyzer/src/ir/op.rs", "crates/analyzer/src/value.rs",
                 "crates/analyzer/src/symbol.rs", "crates/analyzer/src/fragment_codec.rs",
                 "crates/parser/src/fragment_codec.rs"]),
}

BOUNDS = {
    "C17": dict(
        quick="operators: every binary/unary arm of Op::eval_value_* (U64 representation); context widths W in "
              f"{QUICK_W} (binary) / {QUICK_UN_W} (unary); operand widths (W,W),(1,W),(W,1),(ceil(W/2),W); all "
              "payloads, all x/z masks, all signedness flags allowed by the caller contract. Mul: both operands "
              "symbolic for W in {2,8}, one operand reduced to a symbolic 4-bit value at a fixed position for "
              "W in {33,64}. Div/Rem: both symbolic for W in {2,8}; divisor reduced to a 4-bit window for W in "
              "33 and checked by q*y+r==x. Pow: negative exponents only (Table 11-4), base widths 1,8,64, exponent widths 2,8",
        thorough="same with every context width 1..=64; Mul fully symbolic for W<=16, Div/Rem for W<=12, the "
                 "reduced forms above for every larger width at three window positions",
        outside="Value::BigUint representation (widths > 64) and the small/big agreement clause; "
                "operand wider than the context width; `**` beyond negative exponents and exponents 0..2; "
                "eval_type_* width inference; float operators"),
}

BOUNDS["C06"] = dict(
    all="IdWindow/IdRebase arithmetic and the four ID types' serde impls for every usize window, id and base "
        "(no size bound: straight-line integer code, full 64-bit ranges)",
    outside="that every ID-bearing field of every symbol kind is routed through this codec; equality of analyzer "
            "state after restore (symbol_table::export_fragment/restore_fragment, scopes, type DAG); StrId/PathId "
            "dictionary interning (HashMap<String>)")
BOUNDS["C16"] = dict(
    all="every triple of ClockDomain values: 4 variants x full-range SymbolId each",
    outside="domain inference and propagation through expressions, instances and interface members; the "
            "unsafe(cdc) lookup; that check_clock_domain is called at every assignment/connection")
BOUNDS["C36"] = dict(
    quick=f"decode: 1 and 2 words, all aval/bval; encode and to_vcd_value: widths {C36_QUICK_W}, all 4-state values; "
          "to_fst_bits and VcdValueIter: widths 1,3,8",
    thorough="decode: 1 and 2 words; encode and to_vcd_value: every width 1..=64; to_fst_bits/VcdValueIter: widths "
             "1..5,7,8,9,12,16",
    outside="widths > 64 (BigUint limbs); the waveform writers themselves (Simulator::dump_variables, wave_dumper.rs: file I/O)")

ASSUMPTIONS = {
    "C17": [
        "operands satisfy the representation invariant payload,mask_xz < 2^width",
        "caller contract of Expression::eval_value: context signed => context-determined operands signed",
        "std::hash::RandomState::new stubbed with fixed keys (MaskCache's HashMap is only constructed)",
        "reference semantics = /verif/kani/analyzer-k/src/oracle.rs (IEEE 1800-2017 11.4, bit level, over u128)",
        "Kani models the dev profile (overflow checks on); counterexamples are replayed in dev and release",
    ],
}


ASSUMPTIONS["C06"] = [
    "start <= end for every window; base + count does not overflow (the caller reserves that range)",
    "alloc::fmt::format stubbed to return an empty String (error text is not the subject)",
    "std::hash::RandomState::new stubbed with fixed keys (parser EncodeSession holds empty HashMaps)",
    "a 60-line u64-only serde Serializer/Deserializer stands in for postcard (kani/common/miniserde.rs)",
    "parser-side session storage (thread-locals with destructors, which Kani 0.68 cannot compile) replaced by a "
    "static cell with the same begin/end/with logic (kani/analyzer-k/src/lib.rs pc_cell); interning stubs are "
    "never reached (asserted)",
]
ASSUMPTIONS["C16"] = ["none beyond the type's own definition"]
ASSUMPTIONS["C36"] = [
    "values satisfy payload,mask_xz < 2^width",
    "Annex H.10.1.2 table as transcribed in kani/analyzer-k/src/c36.rs",
]

ASSUMPTIONS["C32"] = [
    "rand::RngExt::random_range / rand_pcg::Pcg64 are contract-only stand-ins (kani/shims): random_range(lo..=hi) "
    "returns an arbitrary value in [lo,hi] and panics on an empty range",
    "random_table::with_rng (generator lookup in a thread-local HashMap) replaced by a fresh stand-in generator: "
    "hashbrown under CBMC costs minutes per harness; the per-handle generator table (get_seed_handle / seed_handle "
    "/ reset) is therefore outside the claim",
    "veryl_parser::resource_table::get_str_value stubbed: each of the two handles has an arbitrary fixed name of 0..2 ASCII bytes, or none",
    "std thread_local! shadowed under Kani by a lazily initialised static cell with the same .with() interface "
    "(std's registers a destructor, which Kani 0.68 cannot compile); the spliced file is byte-identical to /repo's "
    "plus one appended mount line",
    "std::hash::RandomState::new stubbed with fixed keys",
]
ASSUMPTIONS["C18"] = [
    "documented precondition of the width-carrying helpers: operands are stored zero-padded above `width`",
    "nb is a multiple of 8 matching the buffer sizes (the module's stated calling convention)",
    "reference arithmetic = (u128,u128) pairs in kani/analyzer-k/src/c18.rs",
]
ASSUMPTIONS["C21"] = ["pattern fan-ins respect topological order (node index < 4 + position), as every pattern built "
                      "by the library enumerator does"]
BOUNDS["C18"] = dict(
    quick="2 and 3 limbs (16, 24 bytes): every helper, all limb contents, full 64-bit shift amounts; width-carrying "
          "helpers at the 4 boundary widths of the top limb; resize/scmp_asym with shorter source allocations; "
          "wide_mul: 1 limb full, 2-3 limbs with one operand a 3-bit window",
    thorough="1..4 limbs; every width whose top bit lies in the top limb (64(n-1) < w <= 64n); wide_ashr up to 3 limbs "
             "(3 limbs: boundary widths only)",
    outside="Cranelift / AOT-C lowering of every operator; interpreter evaluation above 64 bits (BigUint); "
            "multi-operator expressions; wide_mul with both operands symbolic above one limb; more than 4 limbs")
BOUNDS["C32"] = dict(
    quick="get_range at widths 1,2,8,31,32,33,63,64 with all min/max/signedness/sample values; get at 1,8,63,64; "
          "derive_seed against FNV-1a for four fixed base seeds and all names of 0..2 bytes (a symbolic base seed means ten chained 64-bit constant multiplications, which cadical does not finish in 10 min)",
    thorough="get_range at every width 1..=64",
    outside="worker-pool dispatch, captured output and verdict stability (threads/processes); the distribution of "
            "the real PCG generator; the per-handle generator table (get_seed_handle/seed_handle/reset); component instance_seed")
BOUNDS["C21"] = dict(
    quick="perm_tt/flip_inputs/apply for 3 permutations; transform_pattern soundness for 0,1 ANDs (3 perms), 2 ANDs "
          "(2 perms), 3 ANDs (1 perm); AigPattern::eval for 0..3 ANDs; all truth tables, edges, in_neg, out_neg",
    thorough="all 24 permutations for every AND count 0..3",
    outside="npn_canonical, the lazily built library (build_library), rewrite, techmap, AIG<->cell conversion")

PRELUDE = {
    "analyzer-k": """use oracle::{Bin, Un};
use veryl_analyzer::ir::Op;
""",
}


def gen_rs(crate):
    hs = [h for h in all_harnesses() if h["crate"] == crate]
    o = ["// @generated by /verif/run/harness_defs.py -- do not edit\n", PRELUDE.get(crate, "")]
    for h in hs:
        o.append("#[cfg(kani)]\n#[kani::proof]\n")
        if h.get("unwind"):
            o.append(f"#[kani::unwind({h['unwind']})]\n")
        for st in h.get("stubs", []):
            o.append(f"#[kani::stub({st})]\n")
        o.append(f"pub fn {h['name']}() {{ let mut k = src::K; let s = &mut k; {h['body']}; }}\n")
    o.append("\n#[cfg(not(kani))]\npub fn run_native(name: &str, s: &mut src::Rec) -> bool {\n    match name {\n")
    for h in hs:
        o.append(f"        \"{h['name']}\" => {{ {h['body']}; }}\n")
    o.append("        _ => return false,\n    }\n    true\n}\n")
    o.append("pub const HARNESSES: &[&str] = &[\n")
    for h in hs:
        o.append(f"    \"{h['name']}\",\n")
    o.append("];\n")
    return "".join(o)


if __name__ == "__main__":
    import sys, os
    for crate in sorted({h["crate"] for h in all_harnesses()}):
        if CRATE_INFO[crate].get("prepare"):
            CRATE_INFO[crate]["prepare"](f"/verif/kani/{crate}")
        p = f"/verif/kani/{crate}/src/gen.rs"
        new = gen_rs(crate)
        if not os.path.exists(p) or open(p).read() != new:
            open(p, "w").write(new)
            print("wrote", p)
