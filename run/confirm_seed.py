#!/usr/bin/env python3
"""Confirm a seeded change in a scratch worktree (never in /repo):
   1. patch only  -> the existing tests of the touched crates still pass
   2. patch+demo  -> the demonstration fails
   3. demo only   -> the demonstration passes
usage: confirm_seed.py <worktree> <seed_dir> '<existing tests cmd>' '<demo cmd>'"""
import json, os, subprocess, sys, time
wt, sd, existing, demo = sys.argv[1:5]
env = dict(os.environ, CARGO_NET_OFFLINE="true")
def sh(cmd, cwd=wt):
    t=time.time(); p=subprocess.run(cmd, shell=True, cwd=cwd, env=env, capture_output=True, text=True)
    return p.returncode, (p.stdout+p.stderr)[-1500:], round(time.time()-t)
def clean():
    sh("git checkout -- . && git clean -fdq -e target")
rep = {}
clean()
rc,_,_ = sh(f"git apply {sd}/patch.diff"); assert rc==0, "patch does not apply"
rc,out,t = sh(existing); rep["existing_with_patch"]=dict(rc=rc, secs=t, tail=out[-600:])
rc2,_,_ = sh(f"git apply {sd}/demo.diff"); assert rc2==0, "demo does not apply"
rc,out,t = sh(demo); rep["demo_with_patch"]=dict(rc=rc, secs=t, tail=out[-600:])
sh(f"git apply -R {sd}/patch.diff")
rc,out,t = sh(demo); rep["demo_without_patch"]=dict(rc=rc, secs=t, tail=out[-600:])
clean()
rep["confirmed"] = rep["existing_with_patch"]["rc"]==0 and rep["demo_with_patch"]["rc"]!=0 and rep["demo_without_patch"]["rc"]==0
rep["commands"]=dict(existing=existing, demo=demo)
json.dump(rep, open(os.path.join(sd,"confirm.json"),"w"), indent=1)
print(sd, "confirmed" if rep["confirmed"] else "NOT CONFIRMED", {k:v["rc"] for k,v in rep.items() if isinstance(v,dict) and "rc" in v})
