//! Contract-only stand-in for the `rand` crate, used ONLY by harness crates.
//!
//! `random_range(lo..=hi)`: rand's documented contract is "a value in the
//! range; panics if the range is empty".  The stand-in returns an arbitrary
//! value of the range: the harness supplies a raw draw with `set_next_raw`
//! (symbolic under Kani, recorded natively) and `random_range` constrains it
//! to the requested range (kani::assume / replay check) -- so every value the
//! real sampler could return is covered, and nothing about its distribution
//! or algorithm is assumed.

use std::cell::Cell;
use std::ops::RangeInclusive;

thread_local! {
    static NEXT_RAW: Cell<u64> = const { Cell::new(0) };
    static CALLS: Cell<u32> = const { Cell::new(0) };
    static LAST_SEED: Cell<u64> = const { Cell::new(0) };
}

pub fn set_next_raw(v: u64) {
    NEXT_RAW.with(|c| c.set(v));
}
pub fn calls() -> u32 {
    CALLS.with(|c| c.get())
}
pub fn reset_calls() {
    CALLS.with(|c| c.set(0));
}

fn constrain(ok: bool) {
    #[cfg(kani)]
    kani::assume(ok);
    #[cfg(not(kani))]
    if !ok {
        eprintln!("REPLAY: recorded sample lies outside the requested range");
        std::process::exit(3);
    }
}

pub trait SampleRange<T> {
    fn sample_raw(self, raw: u64) -> T;
}

impl SampleRange<u64> for RangeInclusive<u64> {
    fn sample_raw(self, raw: u64) -> u64 {
        let (lo, hi) = (*self.start(), *self.end());
        assert!(lo <= hi, "cannot sample empty range");
        constrain(lo <= raw && raw <= hi);
        raw
    }
}

impl SampleRange<i64> for RangeInclusive<i64> {
    fn sample_raw(self, raw: u64) -> i64 {
        let (lo, hi) = (*self.start(), *self.end());
        assert!(lo <= hi, "cannot sample empty range");
        let v = raw as i64;
        constrain(lo <= v && v <= hi);
        v
    }
}

pub trait RngExt {
    fn random_range<T, R: SampleRange<T>>(&mut self, range: R) -> T {
        CALLS.with(|c| c.set(c.get() + 1));
        let raw = NEXT_RAW.with(|c| c.get());
        range.sample_raw(raw)
    }
}

pub trait SeedableRng: Sized {
    fn seed_from_u64(seed: u64) -> Self;
}
