//! Opaque stand-in for rand_pcg::Pcg64 (see ../rand): only remembers its seed.
pub struct Pcg64 {
    pub seed: u64,
}
impl rand::SeedableRng for Pcg64 {
    fn seed_from_u64(seed: u64) -> Self {
        Pcg64 { seed }
    }
}
impl rand::RngExt for Pcg64 {}
