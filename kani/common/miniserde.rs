// A u64-only serde Serializer/Deserializer: just enough to drive the ID
// types' custom Serialize/Deserialize impls (they emit/consume one u64).
#![allow(dead_code)]
use serde::de::{self, Visitor};
use serde::ser;
use std::fmt;

#[derive(Debug, Clone, Copy, PartialEq, Eq)]
pub struct Fail;
impl fmt::Display for Fail {
    fn fmt(&self, _f: &mut fmt::Formatter<'_>) -> fmt::Result {
        Ok(())
    }
}
impl std::error::Error for Fail {}
impl ser::Error for Fail {
    fn custom<T: fmt::Display>(_msg: T) -> Self {
        Fail
    }
}
impl de::Error for Fail {
    fn custom<T: fmt::Display>(_msg: T) -> Self {
        Fail
    }
}

pub struct U64Ser;

macro_rules! no {
    ($($f:ident($t:ty)),*) => { $( fn $f(self, _v: $t) -> Result<u64, Fail> { Err(Fail) } )* };
}

impl ser::Serializer for U64Ser {
    type Ok = u64;
    type Error = Fail;
    type SerializeSeq = ser::Impossible<u64, Fail>;
    type SerializeTuple = ser::Impossible<u64, Fail>;
    type SerializeTupleStruct = ser::Impossible<u64, Fail>;
    type SerializeTupleVariant = ser::Impossible<u64, Fail>;
    type SerializeMap = ser::Impossible<u64, Fail>;
    type SerializeStruct = ser::Impossible<u64, Fail>;
    type SerializeStructVariant = ser::Impossible<u64, Fail>;
    fn serialize_u64(self, v: u64) -> Result<u64, Fail> {
        Ok(v)
    }
    no!(serialize_bool(bool), serialize_i8(i8), serialize_i16(i16), serialize_i32(i32), serialize_i64(i64),
        serialize_u8(u8), serialize_u16(u16), serialize_u32(u32), serialize_f32(f32), serialize_f64(f64),
        serialize_char(char), serialize_str(&str), serialize_bytes(&[u8]));
    fn serialize_none(self) -> Result<u64, Fail> { Err(Fail) }
    fn serialize_some<T: ?Sized + ser::Serialize>(self, _v: &T) -> Result<u64, Fail> { Err(Fail) }
    fn serialize_unit(self) -> Result<u64, Fail> { Err(Fail) }
    fn serialize_unit_struct(self, _n: &'static str) -> Result<u64, Fail> { Err(Fail) }
    fn serialize_unit_variant(self, _n: &'static str, _i: u32, _v: &'static str) -> Result<u64, Fail> { Err(Fail) }
    fn serialize_newtype_struct<T: ?Sized + ser::Serialize>(self, _n: &'static str, _v: &T) -> Result<u64, Fail> { Err(Fail) }
    fn serialize_newtype_variant<T: ?Sized + ser::Serialize>(self, _n: &'static str, _i: u32, _v: &'static str, _x: &T) -> Result<u64, Fail> { Err(Fail) }
    fn serialize_seq(self, _l: Option<usize>) -> Result<Self::SerializeSeq, Fail> { Err(Fail) }
    fn serialize_tuple(self, _l: usize) -> Result<Self::SerializeTuple, Fail> { Err(Fail) }
    fn serialize_tuple_struct(self, _n: &'static str, _l: usize) -> Result<Self::SerializeTupleStruct, Fail> { Err(Fail) }
    fn serialize_tuple_variant(self, _n: &'static str, _i: u32, _v: &'static str, _l: usize) -> Result<Self::SerializeTupleVariant, Fail> { Err(Fail) }
    fn serialize_map(self, _l: Option<usize>) -> Result<Self::SerializeMap, Fail> { Err(Fail) }
    fn serialize_struct(self, _n: &'static str, _l: usize) -> Result<Self::SerializeStruct, Fail> { Err(Fail) }
    fn serialize_struct_variant(self, _n: &'static str, _i: u32, _v: &'static str, _l: usize) -> Result<Self::SerializeStructVariant, Fail> { Err(Fail) }
}

pub struct U64De(pub u64);

impl<'de> de::Deserializer<'de> for U64De {
    type Error = Fail;
    fn deserialize_any<V: Visitor<'de>>(self, v: V) -> Result<V::Value, Fail> {
        v.visit_u64(self.0)
    }
    fn deserialize_u64<V: Visitor<'de>>(self, v: V) -> Result<V::Value, Fail> {
        v.visit_u64(self.0)
    }
    serde::forward_to_deserialize_any! {
        bool i8 i16 i32 i64 i128 u8 u16 u32 u128 f32 f64 char str string
        bytes byte_buf option unit unit_struct newtype_struct seq tuple
        tuple_struct map struct enum identifier ignored_any
    }
}
