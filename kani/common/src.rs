// Shared by every harness crate (included with #[path]).
//
// A harness body is written once against `Src`.  Under Kani every draw is a
// `kani::any()` (a fresh symbolic value); natively (the `replay` binary) the
// draws are read back, in the same order, from the byte vectors Kani's
// concrete playback printed for the solver's model.  The same body therefore
// decides the property symbolically and replays the counterexample against
// the real build.

#![allow(dead_code)]

pub trait Src {
    fn u8(&mut self) -> u8;
    fn u16(&mut self) -> u16;
    fn u32(&mut self) -> u32;
    fn u64(&mut self) -> u64;
    fn usize(&mut self) -> usize;
    fn bool(&mut self) -> bool;
    fn assume(&mut self, c: bool);
    /// reachability witness (kani::cover!); no-op natively
    fn cover(&mut self, c: bool);
    fn u128(&mut self) -> u128 {
        let lo = self.u64() as u128;
        let hi = self.u64() as u128;
        (hi << 64) | lo
    }
    /// value in 0..n (n small, > 0)
    fn below(&mut self, n: usize) -> usize {
        let v = self.usize();
        self.assume(v < n);
        v
    }
}

#[cfg(kani)]
pub struct K;

#[cfg(kani)]
impl Src for K {
    fn u8(&mut self) -> u8 {
        kani::any()
    }
    fn u16(&mut self) -> u16 {
        kani::any()
    }
    fn u32(&mut self) -> u32 {
        kani::any()
    }
    fn u64(&mut self) -> u64 {
        kani::any()
    }
    fn usize(&mut self) -> usize {
        kani::any()
    }
    fn bool(&mut self) -> bool {
        kani::any()
    }
    fn assume(&mut self, c: bool) {
        kani::assume(c)
    }
    fn cover(&mut self, c: bool) {
        kani::cover!(c)
    }
}

/// Native source: replays recorded draws.
#[cfg(not(kani))]
pub struct Rec {
    pub vals: Vec<Vec<u8>>,
    pub idx: usize,
    pub assume_failed: bool,
}

#[cfg(not(kani))]
impl Rec {
    pub fn new(vals: Vec<Vec<u8>>) -> Self {
        Rec {
            vals,
            idx: 0,
            assume_failed: false,
        }
    }
    fn take(&mut self, n: usize) -> u64 {
        // Draws past the recorded list (paths the model never reached) read 0.
        let v = self.vals.get(self.idx).cloned().unwrap_or_default();
        self.idx += 1;
        let mut r = 0u64;
        for (i, b) in v.iter().take(n.min(8)).enumerate() {
            r |= (*b as u64) << (8 * i);
        }
        r
    }
}

#[cfg(not(kani))]
impl Src for Rec {
    fn u8(&mut self) -> u8 {
        self.take(1) as u8
    }
    fn u16(&mut self) -> u16 {
        self.take(2) as u16
    }
    fn u32(&mut self) -> u32 {
        self.take(4) as u32
    }
    fn u64(&mut self) -> u64 {
        self.take(8)
    }
    fn usize(&mut self) -> usize {
        self.take(8) as usize
    }
    fn bool(&mut self) -> bool {
        self.take(1) != 0
    }
    fn assume(&mut self, c: bool) {
        if !c {
            self.assume_failed = true;
            // An assumption the model violates means the recorded draws do not
            // correspond to this body: not a reproduction.
            eprintln!("REPLAY: assumption violated at draw {}", self.idx);
            std::process::exit(3);
        }
    }
    fn cover(&mut self, _c: bool) {}
}

/// Parse `hex,hex;hex,...`-style draw lists: draws separated by '/', bytes by ','.
#[cfg(not(kani))]
pub fn parse_draws(s: &str) -> Vec<Vec<u8>> {
    s.split('/')
        .filter(|t| !t.is_empty())
        .map(|t| {
            t.split(',')
                .filter(|b| !b.is_empty())
                .map(|b| b.trim().parse::<u8>().expect("byte"))
                .collect()
        })
        .collect()
}
