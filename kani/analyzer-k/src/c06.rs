//! C06 (ID codec only): window-relative encoding and rebasing of the counter
//! IDs a cached fragment stores.  Real code: veryl_parser::fragment_codec::
//! {IdWindow, IdRebase} and the Serialize/Deserialize impls of TokenId, TextId
//! (parser) and SymbolId, DefinitionId (analyzer, with the sentinel-0 shift),
//! driven through their thread-local sessions.

use crate::miniserde::{U64De, U64Ser};
use crate::src::Src;
use serde::{Deserialize, Serialize};
use veryl_analyzer::definition_table::DefinitionId;
use veryl_analyzer::fragment_codec as ac;
use veryl_analyzer::symbol::SymbolId;
use veryl_parser::fragment_codec as pc;
use veryl_parser::fragment_codec::{IdRebase, IdWindow};
use veryl_parser::resource_table::TokenId;
use veryl_parser::text_table::TextId;

fn window(s: &mut impl Src) -> (usize, usize) {
    let start = s.usize();
    let end = s.usize();
    s.assume(start <= end);
    (start, end)
}

/// IdWindow::encode / IdRebase::decode in isolation, every window position.
pub fn window_rebase(s: &mut impl Src) {
    let (start, end) = window(s);
    let w = IdWindow { start, end };
    let count = w.count();
    assert!(count == end - start);
    let id = s.usize();
    let base = s.usize();
    // the caller reserves base+1 ..= base+count without overflow
    s.assume(base <= usize::MAX - count);
    let rb = IdRebase { base, count };
    match w.encode(id, "id") {
        Ok(local) => {
            s.cover(true);
            // accepted exactly inside the half-open window (start, end]
            assert!(id > start && id <= end);
            assert!((local as usize) < count);
            let back = rb.decode(local, "id");
            assert!(back.is_ok());
            let back = back.unwrap();
            // rebasing preserves the offset from the window start
            assert!(back - base == id - start);
            assert!(back > base && back <= base + count);
            // order and injectivity against a second in-window id
            let id2 = s.usize();
            if let Ok(local2) = w.encode(id2, "id") {
                let back2 = rb.decode(local2, "id").unwrap();
                assert!((id < id2) == (back < back2));
                assert!((id == id2) == (back == back2));
            }
        }
        Err(_) => {
            s.cover(true);
            // refused at capture time exactly outside the window
            assert!(!(id > start && id <= end));
        }
    }
    // locals at or past the count are refused on restore
    let bogus = s.u64();
    if (bogus as usize) >= count {
        assert!(rb.decode(bogus, "id").is_err());
    }
}

/// TokenId / TextId through their serde impls and the parser-side sessions.
pub fn parser_ids(s: &mut impl Src) {
    let (ts, te) = window(s);
    let (xs, xe) = window(s);
    let tid = s.usize();
    let xid = s.usize();
    // no session: passthrough both ways
    assert!(TokenId(tid).serialize(U64Ser) == Ok(tid as u64));
    assert!(TextId(xid).serialize(U64Ser) == Ok(xid as u64));
    assert!(TokenId::deserialize(U64De(tid as u64)) == Ok(TokenId(tid)));

    pc::begin_encode(pc::EncodeSession::new(
        IdWindow { start: ts, end: te },
        IdWindow { start: xs, end: xe },
    ));
    let et = TokenId(tid).serialize(U64Ser);
    let ex = TextId(xid).serialize(U64Ser);
    std::mem::forget(pc::end_encode());
    assert!(et.is_ok() == (tid > ts && tid <= te));
    assert!(ex.is_ok() == (xid > xs && xid <= xe));

    let tb = s.usize();
    let xb = s.usize();
    s.assume(tb <= usize::MAX - (te - ts));
    s.assume(xb <= usize::MAX - (xe - xs));
    pc::begin_decode(pc::DecodeSession::new(
        &[],
        &[],
        IdRebase { base: tb, count: te - ts },
        IdRebase { base: xb, count: xe - xs },
    ));
    if let Ok(v) = et {
        s.cover(true);
        let back = TokenId::deserialize(U64De(v));
        assert!(back == Ok(TokenId(tb + (tid - ts))));
    }
    if let Ok(v) = ex {
        s.cover(true);
        let back = TextId::deserialize(U64De(v));
        assert!(back == Ok(TextId(xb + (xid - xs))));
    }
    // a token window must not decode text ids and vice versa: each uses its own rebase
    let raw = s.u64();
    if (raw as usize) >= te - ts {
        assert!(TokenId::deserialize(U64De(raw)).is_err());
    }
    pc::end_decode();
}

/// SymbolId / DefinitionId with the sentinel-0 wire shift.
pub fn analyzer_ids(s: &mut impl Src) {
    let (ss, se) = window(s);
    let (ds, de) = window(s);
    let sid = s.usize();
    let did = s.usize();
    assert!(SymbolId(sid).serialize(U64Ser) == Ok(sid as u64));
    assert!(DefinitionId::deserialize(U64De(did as u64)) == Ok(DefinitionId(did)));

    ac::begin_encode(ac::EncodeSession {
        symbol_window: IdWindow { start: ss, end: se },
        definition_window: IdWindow { start: ds, end: de },
    });
    let es = SymbolId(sid).serialize(U64Ser);
    let ed = DefinitionId(did).serialize(U64Ser);
    ac::end_encode();
    // id 0 (unresolved reference) always encodes, as wire 0; real ids only inside the window
    assert!(es.is_ok() == (sid == 0 || (sid > ss && sid <= se)));
    assert!(ed.is_ok() == (did == 0 || (did > ds && did <= de)));
    if let Ok(v) = es {
        assert!((v == 0) == (sid == 0));
    }

    let sb = s.usize();
    let db = s.usize();
    s.assume(sb <= usize::MAX - (se - ss));
    s.assume(db <= usize::MAX - (de - ds));
    ac::begin_decode(ac::DecodeSession {
        symbol_rebase: IdRebase { base: sb, count: se - ss },
        definition_rebase: IdRebase { base: db, count: de - ds },
    });
    if let Ok(v) = es {
        s.cover(true);
        let back = SymbolId::deserialize(U64De(v));
        let want = if sid == 0 { 0 } else { sb + (sid - ss) };
        assert!(back == Ok(SymbolId(want)));
        // a restored real id never collides with the sentinel
        assert!(sid == 0 || want != 0);
    }
    if let Ok(v) = ed {
        s.cover(true);
        let back = DefinitionId::deserialize(U64De(v));
        let want = if did == 0 { 0 } else { db + (did - ds) };
        assert!(back == Ok(DefinitionId(want)));
    }
    let raw = s.u64();
    if raw != 0 && ((raw - 1) as usize) >= se - ss {
        assert!(SymbolId::deserialize(U64De(raw)).is_err());
    }
    ac::end_decode();
}
