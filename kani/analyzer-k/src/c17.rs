//! C17: `Op::eval_value_unary` / `Op::eval_value_binary` (the `Value::U64`
//! representation) against the IEEE 1800 reference in `oracle.rs`.
//!
//! Concrete per case: operator, context width W, operand widths (xw, yw).
//! Symbolic: payloads, X/Z masks, signedness flags, shift amounts.

use crate::oracle::{self, Bin, Un, V4};
use crate::src::Src;
use veryl_analyzer::ir::Op;
use veryl_analyzer::value::{MaskCache, Value, ValueU64};

pub const QUICK_W: &[usize] = &[1, 2, 3, 4, 7, 8, 16, 31, 32, 33, 63, 64];

fn draw(s: &mut impl Src, w: usize) -> (Value, V4, bool) {
    let m = ValueU64::gen_mask(w);
    let p = s.u64() & m;
    let x = s.u64() & m;
    let signed = s.bool();
    let v = Value::U64(ValueU64 {
        payload: p,
        mask_xz: x,
        width: w as u32,
        signed,
    });
    (v, V4::new(p as u128, x as u128, w as u32), signed)
}

fn got(v: &Value) -> (u64, u64, u32, bool) {
    match v {
        Value::U64(v) => (v.payload, v.mask_xz, v.width, v.signed),
        Value::BigUint(_) => panic!("result left the 64-bit representation"),
    }
}

fn same(r: &Value, e: V4) {
    let (p, m, w, _) = got(r);
    assert!(w == e.w, "result width");
    assert!(m as u128 == e.m, "result x/z mask");
    assert!(p as u128 == e.p, "result payload");
}

/// operand-width combinations exercised for context width `w`
pub fn combo(w: usize, k: usize) -> (usize, usize) {
    match k {
        0 => (w, w),
        1 => (1, w),
        2 => (w, 1),
        _ => (w.div_ceil(2), w),
    }
}

pub fn bin_case(s: &mut impl Src, mc: &mut MaskCache, op: Op, ob: Bin, w: usize, xw: usize, yw: usize) {
    let (x, ox, xs) = draw(s, xw);
    let (y, oy, ys) = draw(s, yw);
    let ctx_s = s.bool();
    // caller contract (Expression::eval_value / eval_context_binary): a signed
    // context means every context-determined operand is signed.
    let self_y = matches!(
        ob,
        Bin::Shl | Bin::Shr | Bin::AShl | Bin::AShr
    );
    if self_y {
        s.assume(!ctx_s || xs);
    } else {
        s.assume(!ctx_s || (xs && ys));
    }
    let r = op.eval_value_binary(&x, &y, w, ctx_s, mc);
    let e = oracle::binary(ob, ox, xs, oy, ys, w as u32, ctx_s);
    s.cover(true);
    same(&r, e);
    if matches!(ob, Bin::Add | Bin::Sub | Bin::Mul | Bin::Div | Bin::Rem) {
        assert!(got(&r).3 == ctx_s, "result signedness");
    }
}

pub fn un_case(s: &mut impl Src, mc: &mut MaskCache, op: Op, ou: Un, w: usize, xw: usize) {
    let (x, ox, xs) = draw(s, xw);
    let ctx_s = s.bool();
    s.assume(!ctx_s || xs);
    let r = op.eval_value_unary(&x, w, ctx_s, mc);
    let e = oracle::unary(ou, ox, w as u32, ctx_s && xs);
    s.cover(true);
    same(&r, e);
}

/// all operand-width combos for each listed context width
pub fn bin_table(s: &mut impl Src, op: Op, ob: Bin, ws: &[usize]) {
    let reduced = matches!(
        ob,
        Bin::Eq
            | Bin::Ne
            | Bin::EqWild
            | Bin::NeWild
            | Bin::Gt
            | Bin::Ge
            | Bin::Lt
            | Bin::Le
            | Bin::LAnd
            | Bin::LOr
    );
    let mut mc = MaskCache::default();
    let mut i = 0;
    while i < ws.len() {
        let w = ws[i];
        let mut k = 0;
        while k < 4 {
            let (xw, yw) = combo(w, k);
            if reduced {
                // 1-bit result ops: operand widths are (xw,yw); context width
                // is the width the bit is extended to: try 1 and w.
                bin_case(s, &mut mc, op, ob, 1, xw, yw);
                if w > 1 && k == 0 {
                    bin_case(s, &mut mc, op, ob, w, xw, yw);
                }
            } else {
                bin_case(s, &mut mc, op, ob, w, xw, yw);
            }
            k += 1;
        }
        i += 1;
    }
    std::mem::forget(mc);
}

pub fn un_table(s: &mut impl Src, op: Op, ou: Un, ws: &[usize]) {
    let reduction = !matches!(ou, Un::Plus | Un::Minus | Un::Not);
    let mut mc = MaskCache::default();
    let mut i = 0;
    while i < ws.len() {
        let w = ws[i];
        if reduction {
            un_case(s, &mut mc, op, ou, 1, w);
            if w > 1 {
                un_case(s, &mut mc, op, ou, w, w);
            }
        } else {
            un_case(s, &mut mc, op, ou, w, w);
            un_case(s, &mut mc, op, ou, w, 1);
            un_case(s, &mut mc, op, ou, w, w.div_ceil(2));
        }
        i += 1;
    }
    std::mem::forget(mc);
}

/// `**`: negative exponent (Table 11-4) for any base, and exponents 0..=2.
pub fn pow_neg_case(s: &mut impl Src, mc: &mut MaskCache, w: usize, yw: usize) {
    let (x, ox, xs) = draw(s, w);
    let ctx_s = s.bool();
    s.assume(!ctx_s || xs);
    let ym = ValueU64::gen_mask(yw);
    let yp = s.u64() & ym;
    // signed exponent with its MSB set, no x/z
    s.assume((yp >> (yw - 1)) & 1 == 1);
    let y = Value::U64(ValueU64 {
        payload: yp,
        mask_xz: 0,
        width: yw as u32,
        signed: true,
    });
    let r = Op::Pow.eval_value_binary(&x, &y, w, ctx_s, mc);
    let e = oracle::pow_negative_exp(ox, xs, yp & 1 == 1, w as u32, ctx_s);
    s.cover(true);
    same(&r, e);
}
