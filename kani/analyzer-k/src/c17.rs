//! C17: `Op::eval_value_unary` / `Op::eval_value_binary` (the `Value::U64`
//! representation) against the IEEE 1800 reference in `oracle.rs`.
//!
//! Concrete per case: operator, context width W, operand widths (xw, yw).
//! Symbolic: payloads, X/Z masks, signedness flags, shift amounts.

use crate::oracle::{self, Bin, Un, V4};
use crate::src::Src;
use veryl_analyzer::ir::Op;
use veryl_analyzer::value::{MaskCache, Value, ValueU64};

pub const QUICK_W: &[usize] = &[1, 2, 3, 4, 7, 8, 16, 31, 32, 33, 63, 64];

fn draw(s: &mut impl Src, w: usize) -> (Value, V4, bool) {
    let m = ValueU64::gen_mask(w);
    let p = s.u64() & m;
    let x = s.u64() & m;
    let signed = s.bool();
    let v = Value::U64(ValueU64 {
        payload: p,
        mask_xz: x,
        width: w as u32,
        signed,
    });
    (v, V4::new(p as u128, x as u128, w as u32), signed)
}

fn got(v: &Value) -> (u64, u64, u32, bool) {
    match v {
        Value::U64(v) => (v.payload, v.mask_xz, v.width, v.signed),
        Value::BigUint(_) => panic!("result left the 64-bit representation"),
    }
}

fn same(r: &Value, e: V4) {
    let (p, m, w, _) = got(r);
    assert!(w == e.w, "result width");
    assert!(m as u128 == e.m, "result x/z mask");
    assert!(p as u128 == e.p, "result payload");
}

/// operand-width combinations exercised for context width `w`
pub fn combo(w: usize, k: usize) -> (usize, usize) {
    match k {
        0 => (w, w),
        1 => (1, w),
        2 => (w, 1),
        _ => (w.div_ceil(2), w),
    }
}

pub fn bin_case(s: &mut impl Src, mc: &mut MaskCache, op: Op, ob: Bin, w: usize, xw: usize, yw: usize) {
    let (x, ox, xs) = draw(s, xw);
    let (y, oy, ys) = draw(s, yw);
    let ctx_s = s.bool();
    // caller contract (Expression::eval_value / eval_context_binary): a signed
    // context means every context-determined operand is signed.
    let self_y = matches!(
        ob,
        Bin::Shl | Bin::Shr | Bin::AShl | Bin::AShr
    );
    if self_y {
        s.assume(!ctx_s || xs);
    } else {
        s.assume(!ctx_s || (xs && ys));
    }
    let r = op.eval_value_binary(&x, &y, w, ctx_s, mc);
    let e = oracle::binary(ob, ox, xs, oy, ys, w as u32, ctx_s);
    s.cover(true);
    same(&r, e);
    if matches!(ob, Bin::Add | Bin::Sub | Bin::Mul | Bin::Div | Bin::Rem) {
        assert!(got(&r).3 == ctx_s, "result signedness");
    }
}

pub fn un_case(s: &mut impl Src, mc: &mut MaskCache, op: Op, ou: Un, w: usize, xw: usize) {
    let (x, ox, xs) = draw(s, xw);
    let ctx_s = s.bool();
    s.assume(!ctx_s || xs);
    let r = op.eval_value_unary(&x, w, ctx_s, mc);
    let e = oracle::unary(ou, ox, w as u32, ctx_s && xs);
    s.cover(true);
    same(&r, e);
}

/// all operand-width combos for each listed context width
pub fn bin_table(s: &mut impl Src, op: Op, ob: Bin, ws: &[usize]) {
    let reduced = matches!(
        ob,
        Bin::Eq
            | Bin::Ne
            | Bin::EqWild
            | Bin::NeWild
            | Bin::Gt
            | Bin::Ge
            | Bin::Lt
            | Bin::Le
            | Bin::LAnd
            | Bin::LOr
    );
    let mut mc = MaskCache::default();
    let mut i = 0;
    while i < ws.len() {
        let w = ws[i];
        let mut k = 0;
        while k < 4 {
            let (xw, yw) = combo(w, k);
            if reduced {
                // 1-bit result ops: operand widths are (xw,yw); context width
                // is the width the bit is extended to: try 1 and w.
                bin_case(s, &mut mc, op, ob, 1, xw, yw);
                if w > 1 && k == 0 {
                    bin_case(s, &mut mc, op, ob, w, xw, yw);
                }
            } else {
                bin_case(s, &mut mc, op, ob, w, xw, yw);
            }
            k += 1;
        }
        i += 1;
    }
    std::mem::forget(mc);
}

pub fn un_table(s: &mut impl Src, op: Op, ou: Un, ws: &[usize]) {
    let reduction = !matches!(ou, Un::Plus | Un::Minus | Un::Not);
    let mut mc = MaskCache::default();
    let mut i = 0;
    while i < ws.len() {
        let w = ws[i];
        if reduction {
            un_case(s, &mut mc, op, ou, 1, w);
            if w > 1 {
                un_case(s, &mut mc, op, ou, w, w);
            }
        } else {
            un_case(s, &mut mc, op, ou, w, w);
            un_case(s, &mut mc, op, ou, w, 1);
            un_case(s, &mut mc, op, ou, w, w.div_ceil(2));
        }
        i += 1;
    }
    std::mem::forget(mc);
}

/// `**`: negative exponent (Table 11-4) for any base, and exponents 0..=2.
pub fn pow_neg_case(s: &mut impl Src, mc: &mut MaskCache, w: usize, yw: usize) {
    let (x, ox, xs) = draw(s, w);
    let ctx_s = s.bool();
    s.assume(!ctx_s || xs);
    let ym = ValueU64::gen_mask(yw);
    let yp = s.u64() & ym;
    // signed exponent with its MSB set, no x/z
    s.assume((yp >> (yw - 1)) & 1 == 1);
    let y = Value::U64(ValueU64 {
        payload: yp,
        mask_xz: 0,
        width: yw as u32,
        signed: true,
    });
    let r = Op::Pow.eval_value_binary(&x, &y, w, ctx_s, mc);
    let e = oracle::pow_negative_exp(ox, xs, yp & 1 == 1, w as u32, ctx_s);
    s.cover(true);
    same(&r, e);
}

/// Development aid (native only): exhaustive small-width comparison of the
/// oracle with the implementation, to debug the oracle itself.  Not a check:
/// the registered checks decide by solver.
#[cfg(not(kani))]
pub fn sweep() {
    use crate::src::Rec;
    let bins: &[(&str, Op, Bin)] = &[
        ("add", Op::Add, Bin::Add), ("sub", Op::Sub, Bin::Sub), ("mul", Op::Mul, Bin::Mul),
        ("div", Op::Div, Bin::Div), ("rem", Op::Rem, Bin::Rem), ("and", Op::BitAnd, Bin::And),
        ("or", Op::BitOr, Bin::Or), ("xor", Op::BitXor, Bin::Xor), ("xnor", Op::BitXnor, Bin::Xnor),
        ("eq", Op::Eq, Bin::Eq), ("ne", Op::Ne, Bin::Ne), ("eqw", Op::EqWildcard, Bin::EqWild),
        ("new", Op::NeWildcard, Bin::NeWild), ("gt", Op::Greater, Bin::Gt), ("ge", Op::GreaterEq, Bin::Ge),
        ("lt", Op::Less, Bin::Lt), ("le", Op::LessEq, Bin::Le), ("land", Op::LogicAnd, Bin::LAnd),
        ("lor", Op::LogicOr, Bin::LOr), ("shl", Op::LogicShiftL, Bin::Shl), ("shr", Op::LogicShiftR, Bin::Shr),
        ("ashl", Op::ArithShiftL, Bin::AShl), ("ashr", Op::ArithShiftR, Bin::AShr),
    ];
    let uns: &[(&str, Op, Un)] = &[
        ("uplus", Op::Add, Un::Plus), ("uminus", Op::Sub, Un::Minus), ("unot", Op::BitNot, Un::Not),
        ("rand", Op::BitAnd, Un::RAnd), ("rnand", Op::BitNand, Un::RNand), ("ror", Op::BitOr, Un::ROr),
        ("rnor", Op::BitNor, Un::RNor), ("rxor", Op::BitXor, Un::RXor), ("rxnor", Op::BitXnor, Un::RXnor),
        ("lnot", Op::LogicNot, Un::LNot),
    ];
    let le = |v: u64| v.to_le_bytes().to_vec();
    for (name, op, ob) in bins {
        let (mut n, mut bad) = (0u64, 0u64);
        let mut first = String::new();
        for w in 1..=3usize {
            for k in 0..4 {
                let (xw, yw) = combo(w, k);
                for xp in 0..(1u64 << xw) { for xm in 0..(1u64 << xw) { for yp in 0..(1u64 << yw) { for ym in 0..(1u64 << yw) {
                for flags in 0..8u8 {
                    let (xs, ys, cs) = (flags & 1 != 0, flags & 2 != 0, flags & 4 != 0);
                    let shiftop = matches!(ob, Bin::Shl | Bin::Shr | Bin::AShl | Bin::AShr);
                    if cs && !(xs && (ys || shiftop)) { continue; }
                    let draws = vec![le(xp), le(xm), vec![xs as u8], le(yp), le(ym), vec![ys as u8], vec![cs as u8]];
                    let r = std::panic::catch_unwind(|| {
                        let mut rec = Rec::new(draws);
                        let mut mc = MaskCache::default();
                        bin_case(&mut rec, &mut mc, *op, *ob, w, xw, yw);
                    });
                    n += 1;
                    if r.is_err() {
                        bad += 1;
                        if first.is_empty() {
                            first = format!("w={w} xw={xw} yw={yw} x=({xp:b},{xm:b},{xs}) y=({yp:b},{ym:b},{ys}) ctx_s={cs}");
                        }
                    }
                }
                }}}}
            }
        }
        println!("{name}: {n} cases, {bad} mismatches {first}");
    }
    for (name, op, ou) in uns {
        let (mut n, mut bad) = (0u64, 0u64);
        let mut first = String::new();
        for w in 1..=4usize { for xw in 1..=w {
            for xp in 0..(1u64 << xw) { for xm in 0..(1u64 << xw) { for flags in 0..4u8 {
                let (xs, cs) = (flags & 1 != 0, flags & 2 != 0);
                if cs && !xs { continue; }
                let draws = vec![le(xp), le(xm), vec![xs as u8], vec![cs as u8]];
                let r = std::panic::catch_unwind(|| {
                    let mut rec = Rec::new(draws);
                    let mut mc = MaskCache::default();
                    un_case(&mut rec, &mut mc, *op, *ou, w, xw);
                });
                n += 1;
                if r.is_err() { bad += 1; if first.is_empty() { first = format!("w={w} xw={xw} x=({xp:b},{xm:b},{xs}) ctx_s={cs}"); } }
            }}}
        }}
        println!("{name}: {n} cases, {bad} mismatches {first}");
    }
}

/// Mul at large widths: x fully symbolic (4-state), y = a K-bit symbolic value
/// placed at the concrete bit position `pos` (unsigned context), so the
/// multiplier the solver sees has K partial products.  Stated reduced bound.
pub fn mul_sparse(s: &mut impl Src, w: usize, pos: usize, swap: bool) {
    const K: u64 = 4;
    let (x, ox, xs) = draw(s, w);
    let m = ValueU64::gen_mask(w);
    let small = (s.u8() as u64) & ((1 << K) - 1);
    let yp = (small << pos) & m;
    let y = Value::U64(ValueU64 { payload: yp, mask_xz: 0, width: w as u32, signed: false });
    let oy = V4::new(yp as u128, 0, w as u32);
    let mut mc = MaskCache::default();
    let (r, e) = if swap {
        (Op::Mul.eval_value_binary(&y, &x, w, false, &mut mc), oracle::binary(Bin::Mul, oy, false, ox, xs, w as u32, false))
    } else {
        (Op::Mul.eval_value_binary(&x, &y, w, false, &mut mc), oracle::binary(Bin::Mul, ox, xs, oy, false, w as u32, false))
    };
    s.cover(small == (1 << K) - 1);
    same(&r, e);
    std::mem::forget(mc);
}

/// Div and Rem at large widths, checked by the division identity instead of a
/// second divider: for a divisor with K free bits at position `pos`,
///   q*y + r == x,  |r| < |y|,  r == 0 or sign(r) == sign(x)      (IEEE 1800 11.4.2)
/// with the single wrap case MIN / -1 -> MIN, rem 0.  Any x/z or y == 0 -> all x.
pub fn divrem_sparse(s: &mut impl Src, w: usize, pos: usize, signed: bool) {
    const K: u64 = 4;
    let m = ValueU64::gen_mask(w);
    let xp = s.u64() & m;
    let xm = if s.bool() { s.u64() & m } else { 0 };
    let small = (s.u8() as u64) & ((1 << K) - 1);
    // signed: optionally all-ones above the window so that negative divisors occur
    let neg_fill = signed && s.bool();
    let above = if pos as u64 + K >= 64 { 0 } else { m & !(((1u64 << (pos as u64 + K)) - 1)) };
    let yp = ((small << pos) & m) | if neg_fill { above } else { 0 };
    let x = Value::U64(ValueU64 { payload: xp, mask_xz: xm, width: w as u32, signed });
    let y = Value::U64(ValueU64 { payload: yp, mask_xz: 0, width: w as u32, signed });
    let mut mc = MaskCache::default();
    let q = Op::Div.eval_value_binary(&x, &y, w, signed, &mut mc);
    let r = Op::Rem.eval_value_binary(&x, &y, w, signed, &mut mc);
    let (qp, qm, qw, qs) = got(&q);
    let (rp, rm, rw, rs) = got(&r);
    assert!(qw as usize == w && rw as usize == w && qs == signed && rs == signed);
    s.cover(xm == 0 && yp != 0 && small == 5);
    if xm != 0 || yp == 0 {
        assert!(qp == 0 && qm == m && rp == 0 && rm == m, "x/z operand or zero divisor yields all-x");
    } else {
        assert!(qm == 0 && rm == 0);
        if signed {
            let sx = |v: u64| -> i128 {
                if (v >> (w - 1)) & 1 == 1 { v as i128 - (m as i128 + 1) } else { v as i128 }
            };
            let (a, b, qq, rr) = (sx(xp), sx(yp), sx(qp), sx(rp));
            let min = -((m as i128 + 1) / 2);
            if a == min && b == -1 {
                assert!(qq == min && rr == 0, "MIN / -1 wraps to MIN, remainder 0");
            } else {
                assert!(qq * b + rr == a, "q*y + r == x");
                assert!(rr.abs() < b.abs(), "|r| < |y|");
                assert!(rr == 0 || (rr < 0) == (a < 0), "remainder takes the dividend's sign");
            }
        } else {
            let (a, b, qq, rr) = (xp as u128, yp as u128, qp as u128, rp as u128);
            assert!(qq * b + rr == a, "q*y + r == x");
            assert!(rr < b, "r < y");
        }
    }
    std::mem::forget(mc);
}
