//! C21 (pattern algebra): the real /repo/crates/synthesizer/src/aig/npn4.rs
//! (std-only, mounted by #[path]; independent of the `aig` cargo feature).
//!
//! * `perm_tt`, `flip_inputs`, `NpnTransform::apply` against their definition
//!   as variable substitutions, for every truth table;
//! * rewrite soundness lemma: `transform_pattern(p, t).tt() == t.apply(p.tt())`
//!   for every pattern with a given number of AND nodes and every transform.

use crate::src::Src;
use crate::synth_spliced::npn4::*;

pub const PERMS: [[u8; 4]; 24] = [
    [0, 1, 2, 3], [0, 1, 3, 2], [0, 2, 1, 3], [0, 2, 3, 1], [0, 3, 1, 2], [0, 3, 2, 1],
    [1, 0, 2, 3], [1, 0, 3, 2], [1, 2, 0, 3], [1, 2, 3, 0], [1, 3, 0, 2], [1, 3, 2, 0],
    [2, 0, 1, 3], [2, 0, 3, 1], [2, 1, 0, 3], [2, 1, 3, 0], [2, 3, 0, 1], [2, 3, 1, 0],
    [3, 0, 1, 2], [3, 0, 2, 1], [3, 1, 0, 2], [3, 1, 2, 0], [3, 2, 0, 1], [3, 2, 1, 0],
];

fn bit(tt: u16, m: u32) -> bool {
    (tt >> m) & 1 == 1
}

/// value of a 4-input function given as a truth table at input vector x
fn at(tt: u16, x: [bool; 4]) -> bool {
    let m = (x[0] as u32) | ((x[1] as u32) << 1) | ((x[2] as u32) << 2) | ((x[3] as u32) << 3);
    bit(tt, m)
}

/// perm_tt as a variable substitution, at one symbolic minterm, plus the
/// Boolean-algebra homomorphism laws that characterise a substitution
pub fn tt_perm(s: &mut impl Src, pi: usize) {
    let perm = PERMS[pi];
    let tt = s.u16();
    let tt2 = s.u16();
    let m = (s.u8() & 15) as u32;
    let y = [m & 1 == 1, m & 2 != 0, m & 4 != 0, m & 8 != 0];
    // perm_tt: new(y) = old(z) with z[perm[i]] = y[i]
    let mut z = [false; 4];
    let mut i = 0;
    while i < 4 {
        z[perm[i] as usize] = y[i];
        i += 1;
    }
    let p = perm_tt(tt, perm);
    let p2 = perm_tt(tt2, perm);
    s.cover(true);
    assert!(bit(p, m) == at(tt, z), "perm_tt is the substitution z[perm[i]] = y[i]");
    assert!(perm_tt(tt & tt2, perm) == p & p2);
    assert!(perm_tt(!tt, perm) == !p);
    let mut j = 0;
    while j < 4 {
        assert!(perm_tt(VAR_TT[perm[j] as usize], perm) == VAR_TT[j]);
        j += 1;
    }
}

/// flip_inputs and NpnTransform::apply as substitutions, at one symbolic minterm
pub fn tt_ops(s: &mut impl Src, pi: usize) {
    let perm = PERMS[pi];
    let tt = s.u16();
    let m = (s.u8() & 15) as u32;
    let y = [m & 1 == 1, m & 2 != 0, m & 4 != 0, m & 8 != 0];
    // flip_inputs: new(y) = old(y ^ mask)
    let mask = s.u8() & 15;
    let f = flip_inputs(tt, mask);
    s.cover(true);
    assert!(bit(f, m) == bit(tt, m ^ mask as u32));
    assert!(flip_inputs(f, mask) == tt);
    // apply = out_neg ^ flip(perm(tt)), preserves the on-set size up to out_neg
    let out_neg = s.bool();
    let t = NpnTransform { perm, in_neg: mask, out_neg };
    let r = t.apply(tt);
    let mut zz = [false; 4];
    let mut i = 0;
    while i < 4 {
        zz[perm[i] as usize] = y[i] ^ ((mask >> i) & 1 == 1);
        i += 1;
    }
    assert!(bit(r, m) == (at(tt, zz) ^ out_neg), "apply is the NPN substitution");
    let ones = r.count_ones();
    assert!(ones == if out_neg { 16 - tt.count_ones() } else { tt.count_ones() });
}

fn edge(s: &mut impl Src, limit: u8) -> PatEdge {
    let n = s.u8();
    s.assume(n < limit);
    PatEdge(n, s.bool())
}

/// every pattern with `n_ands` AND nodes (fan-ins in topological order), every
/// output edge, every in_neg/out_neg, permutation PERMS[pi]
pub fn transform_sound(s: &mut impl Src, n_ands: usize, pi: usize) {
    let mut ands = Vec::with_capacity(n_ands);
    let mut i = 0;
    while i < n_ands {
        let lim = 4 + i as u8;
        ands.push((edge(s, lim), edge(s, lim)));
        i += 1;
    }
    let output = edge(s, 4 + n_ands as u8);
    let pat = AigPattern { ands, output };
    let t = NpnTransform { perm: PERMS[pi], in_neg: s.u8() & 15, out_neg: s.bool() };
    let want = t.apply(pat.tt());
    let got = transform_pattern(&pat, t);
    s.cover(true);
    assert!(got.size() == n_ands, "adaptation keeps the pattern size");
    assert!(got.tt() == want, "transform_pattern(p,t).tt() == t.apply(p.tt())");
    std::mem::forget(pat);
    std::mem::forget(got);
}

/// AigPattern::eval against a direct per-minterm evaluation of the same DAG
pub fn eval_sound(s: &mut impl Src, n_ands: usize) {
    let mut ands = Vec::with_capacity(n_ands);
    let mut i = 0;
    while i < n_ands {
        let lim = 4 + i as u8;
        ands.push((edge(s, lim), edge(s, lim)));
        i += 1;
    }
    let output = edge(s, 4 + n_ands as u8);
    let pat = AigPattern { ands, output };
    let m = (s.u8() & 15) as u32;
    let mut v = [false; 8];
    v[0] = m & 1 != 0;
    v[1] = m & 2 != 0;
    v[2] = m & 4 != 0;
    v[3] = m & 8 != 0;
    let mut i = 0;
    while i < n_ands {
        let (a, b) = pat.ands[i];
        v[4 + i] = (v[a.0 as usize] ^ a.1) & (v[b.0 as usize] ^ b.1);
        i += 1;
    }
    let want = v[pat.output.0 as usize] ^ pat.output.1;
    s.cover(true);
    assert!(bit(pat.tt(), m) == want, "pattern truth table = its DAG's function");
    std::mem::forget(pat);
}
