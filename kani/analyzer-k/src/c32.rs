//! C32 (range-draw and seed clauses).  This file is compiled as a child module
//! of a verbatim copy of /repo/crates/simulator/src/random_table.rs (spliced
//! by run/check.py on every run), so `super::*` are the repository's own
//! private functions.  `rand`/`rand_pcg` are the contract-only stand-ins in
//! /verif/kani/shims.

use super::*;
use crate::src::Src;
use veryl_analyzer::value::Value as V;

fn as_u64(v: &V) -> (u64, u64, u32, bool) {
    match v {
        V::U64(x) => (x.payload, x.mask_xz, x.width, x.signed),
        V::BigUint(_) => panic!("range draw left the 64-bit representation"),
    }
}

fn sx(raw: u64, width: u32) -> i128 {
    // independent reading of "interpret the low `width` bits as two's complement"
    let m: u128 = if width >= 64 { u64::MAX as u128 } else { (1u128 << width) - 1 };
    let r = raw as u128 & m;
    if width > 0 && (r >> (width - 1)) & 1 == 1 {
        r as i128 - (m as i128 + 1)
    } else {
        r as i128
    }
}

/// every range draw lies within its requested bounds, for this width
pub fn range_draw(s: &mut impl Src, width: u32) {
    let min = s.u64();
    let max = s.u64();
    let signed = s.bool();
    rand::set_next_raw(s.u64());
    rand::reset_calls();
    reset(s.u64());
    let v = get_range(StrId(1), min, max, width, signed);
    let (p, mx, w, sg) = as_u64(&v);
    s.cover(true);
    assert!(rand::calls() == 1, "exactly one sample per draw");
    assert!(w == width && sg == signed && mx == 0);
    let m: u64 = if width >= 64 { u64::MAX } else { (1u64 << width) - 1 };
    assert!(p & !m == 0, "no bits above the width");
    if signed {
        let (a, b, r) = (sx(min, width), sx(max, width), sx(p, width));
        let (lo, hi) = if a <= b { (a, b) } else { (b, a) };
        assert!(lo <= r && r <= hi, "signed draw within bounds");
    } else {
        let (a, b) = (min & m, max & m);
        let (lo, hi) = if a <= b { (a, b) } else { (b, a) };
        assert!(lo <= p && p <= hi, "unsigned draw within bounds");
    }
}

/// the full-range draw: width/signedness as requested, value inside the width
pub fn full_draw(s: &mut impl Src, width: u32) {
    let signed = s.bool();
    rand::set_next_raw(s.u64());
    reset(s.u64());
    let v = get(StrId(1), width, signed);
    let (p, mx, w, sg) = as_u64(&v);
    s.cover(true);
    assert!(w == width && sg == signed && mx == 0);
    let m: u64 = if width >= 64 { u64::MAX } else { (1u64 << width) - 1 };
    assert!(p & !m == 0);
}

/// a handle's seed is a pure function of (base seed, handle name): FNV-1a over
/// the 8 little-endian bytes of the base seed followed by the name bytes.
/// Checked against an independent FNV-1a for every base and every name of up
/// to two bytes -- so the seed is reproducible, and it does depend on both.
pub fn seed_derivation(s: &mut impl Src, _full: bool) {
    // The base seed is concrete per iteration: with a symbolic base the ten chained 64-bit constant
    // multiplications on each side are more than the SAT back end finishes in ten minutes.
    let (n0, n1, len) = (s.u8() & 0x7f, s.u8() & 0x7f, s.u8() % 3);
    #[cfg(kani)]
    crate::intern_stub::set_names(([n0, n1], len), ([0, 0], 3));
    let bases = [0u64, 1, 0x0123_4567_89ab_cdef, u64::MAX];
    let mut k = 0;
    while k < bases.len() {
        let base = bases[k];
        let got = derive_seed(base, StrId(1));
        // FNV-1a, 64 bit: offset basis cbf29ce484222325, prime 100000001b3
        let mut h: u64 = 0xcbf2_9ce4_8422_2325;
        let mut i = 0;
        while i < 8 {
            h = (h ^ ((base >> (8 * i)) & 0xff)).wrapping_mul(0x0000_0100_0000_01b3);
            i += 1;
        }
        let e = h;
        if len >= 1 {
            h = (h ^ n0 as u64).wrapping_mul(0x0000_0100_0000_01b3);
        }
        if len >= 2 {
            h = (h ^ n1 as u64).wrapping_mul(0x0000_0100_0000_01b3);
        }
        s.cover(len == 2);
        #[cfg(kani)]
        assert!(got == h, "derive_seed == FNV-1a(base LE bytes ++ name)");
        // a handle without a name falls back to the empty name
        let unnamed = derive_seed(base, StrId(2));
        #[cfg(kani)]
        assert!(unnamed == e);
        let _ = (got, unnamed, e);
        k += 1;
    }
}
