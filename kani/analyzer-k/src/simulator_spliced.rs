//! Real simulator sources compiled into this crate.
//!
//! * `wide_ops` is the repository file itself (it has no crate-level imports).
//! * `random_table` is a verbatim copy made by run/check.py on every run
//!   (src/spliced/random_table.rs, git-ignored) with one line appended that
//!   mounts ../c32.rs as a child module; its `crate::ir::Value` import is
//!   satisfied below by the re-export the simulator crate itself uses.

#[path = "/repo/crates/simulator/src/wide_ops.rs"]
#[allow(dead_code)]
pub mod wide_ops;

/// Under Kani only: `thread_local!` inside the spliced file expands to a
/// lazily initialised static cell with the same `.with()` interface.  std's
/// thread-locals register a destructor, and compiling that registration makes
/// Kani 0.68 panic (intrinsics.rs:243).  The spliced text itself is not edited:
/// this macro merely shadows the std macro by textual scope.
#[cfg(kani)]
macro_rules! thread_local {
    ($(#[$a:meta])* static $name:ident : $t:ty = $init:expr ; $($rest:tt)*) => {
        static $name: crate::simulator_spliced::KaniLocal<$t> =
            crate::simulator_spliced::KaniLocal::new(|| $init);
    };
}

#[cfg(kani)]
pub struct KaniLocal<T: 'static> {
    init: fn() -> T,
    slot: std::cell::UnsafeCell<Option<T>>,
}
#[cfg(kani)]
unsafe impl<T> Sync for KaniLocal<T> {}
#[cfg(kani)]
impl<T: 'static> KaniLocal<T> {
    pub const fn new(init: fn() -> T) -> Self {
        KaniLocal { init, slot: std::cell::UnsafeCell::new(None) }
    }
    pub fn with<R>(&'static self, f: impl FnOnce(&T) -> R) -> R {
        let slot = unsafe { &mut *self.slot.get() };
        if slot.is_none() {
            *slot = Some((self.init)());
        }
        f(slot.as_ref().unwrap())
    }
}

#[path = "spliced/random_table.rs"]
#[allow(dead_code)]
pub mod random_table;

/// Real synthesizer source: the NPN4 pattern algebra (std only).
pub mod synth {}
