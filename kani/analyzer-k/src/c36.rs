//! C36 (DPI Annex H encoding and dump digits, <= 64 bits).
//! Annex H.10.1.2 (aval,bval): 0=(0,0) 1=(1,0) Z=(0,1) X=(1,1).
//! Repository convention (payload,mask_xz): 0=(0,0) 1=(1,0) X=(0,1) Z=(1,1).

use crate::src::Src;
use veryl_analyzer::value::{SvLogicVecVal, Value, ValueU64};

#[derive(Clone, Copy, PartialEq, Eq)]
enum B4 {
    V0,
    V1,
    X,
    Z,
}

fn annex_h(a: bool, b: bool) -> B4 {
    match (a, b) {
        (false, false) => B4::V0,
        (true, false) => B4::V1,
        (false, true) => B4::Z,
        (true, true) => B4::X,
    }
}

fn repo_bit(p: bool, m: bool) -> B4 {
    match (p, m) {
        (false, false) => B4::V0,
        (true, false) => B4::V1,
        (false, true) => B4::X,
        (true, true) => B4::Z,
    }
}

fn u64_of(v: &Value) -> (u64, u64, u32) {
    match v {
        Value::U64(x) => (x.payload, x.mask_xz, x.width),
        Value::BigUint(_) => panic!("expected the 64-bit representation"),
    }
}

/// decode (1 or 2 words): every bit follows Annex H; encode(decode(w)) == w
pub fn decode_words(s: &mut impl Src, n: usize) {
    let mut words = [SvLogicVecVal { aval: 0, bval: 0 }; 2];
    let mut i = 0;
    while i < n {
        words[i] = SvLogicVecVal {
            aval: s.u32(),
            bval: s.u32(),
        };
        i += 1;
    }
    let v = Value::from(&words[..n]);
    let (p, m, w) = u64_of(&v);
    assert!(w as usize == 32 * n);
    assert!(!v.signed());
    let bit = s.below(32 * n);
    let (wi, bi) = (bit / 32, bit % 32);
    let a = (words[wi].aval >> bi) & 1 == 1;
    let b = (words[wi].bval >> bi) & 1 == 1;
    s.cover(true);
    assert!(repo_bit((p >> bit) & 1 == 1, (m >> bit) & 1 == 1) == annex_h(a, b));
    if n == 1 {
        assert!(p >> 32 == 0 && m >> 32 == 0);
    }
    let back: Vec<SvLogicVecVal> = Vec::from(&v);
    assert!(back.len() == n);
    let mut i = 0;
    while i < n {
        assert!(back[i].aval == words[i].aval && back[i].bval == words[i].bval);
        i += 1;
    }
    std::mem::forget(back);
}

/// encode at width w: ceil(w/32) words, per-bit table, zero padding, round trip
pub fn encode_width(s: &mut impl Src, w: usize) {
    let mask = ValueU64::gen_mask(w);
    let p = s.u64() & mask;
    let m = s.u64() & mask;
    let v = Value::U64(ValueU64 {
        payload: p,
        mask_xz: m,
        width: w as u32,
        signed: s.bool(),
    });
    let words: Vec<SvLogicVecVal> = Vec::from(&v);
    let n = w.div_ceil(32);
    assert!(words.len() == n);
    let bit = s.below(32 * n);
    let (wi, bi) = (bit / 32, bit % 32);
    let a = (words[wi].aval >> bi) & 1 == 1;
    let b = (words[wi].bval >> bi) & 1 == 1;
    s.cover(true);
    if bit < w {
        assert!(annex_h(a, b) == repo_bit((p >> bit) & 1 == 1, (m >> bit) & 1 == 1));
    } else {
        // padding above the width is 0 (aval=bval=0)
        assert!(!a && !b);
    }
    // decode(encode(v)) restores every bit below w and adds nothing above
    let back = Value::from(&words[..]);
    let (bp, bm, bw) = u64_of(&back);
    assert!(bw as usize == 32 * n);
    assert!(bp == p && bm == m);
    std::mem::forget(words);
}

/// VCD / FST digits of a w-bit value
pub fn dump_digits(s: &mut impl Src, w: usize) {
    let mask = ValueU64::gen_mask(w);
    let p = s.u64() & mask;
    let m = s.u64() & mask;
    let v = Value::U64(ValueU64 {
        payload: p,
        mask_xz: m,
        width: w as u32,
        signed: false,
    });
    let i = s.below(w);
    let want = repo_bit((p >> i) & 1 == 1, (m >> i) & 1 == 1);
    let got = match v.to_vcd_value(i as u64) {
        vcd::Value::V0 => B4::V0,
        vcd::Value::V1 => B4::V1,
        vcd::Value::X => B4::X,
        vcd::Value::Z => B4::Z,
    };
    s.cover(true);
    assert!(got == want);
}

pub fn fst_bits(s: &mut impl Src, w: usize) {
    let mask = ValueU64::gen_mask(w);
    let p = s.u64() & mask;
    let m = s.u64() & mask;
    let v = Value::U64(ValueU64 {
        payload: p,
        mask_xz: m,
        width: w as u32,
        signed: false,
    });
    let bits = v.to_fst_bits();
    assert!(bits.len() == w);
    let i = s.below(w);
    // MSB first: character k describes bit w-1-k
    let c = bits[w - 1 - i];
    let want = match repo_bit((p >> i) & 1 == 1, (m >> i) & 1 == 1) {
        B4::V0 => b'0',
        B4::V1 => b'1',
        B4::X => b'x',
        B4::Z => b'z',
    };
    s.cover(true);
    assert!(c == want);
    std::mem::forget(bits);
}

/// the MSB-first iterator used by the VCD writer
pub fn vcd_iter(s: &mut impl Src, w: usize) {
    let mask = ValueU64::gen_mask(w);
    let p = s.u64() & mask;
    let m = s.u64() & mask;
    let v = Value::U64(ValueU64 {
        payload: p,
        mask_xz: m,
        width: w as u32,
        signed: false,
    });
    let mut n = 0usize;
    for d in &v {
        let i = w - 1 - n;
        let want = repo_bit((p >> i) & 1 == 1, (m >> i) & 1 == 1);
        let got = match d {
            vcd::Value::V0 => B4::V0,
            vcd::Value::V1 => B4::V1,
            vcd::Value::X => B4::X,
            vcd::Value::Z => B4::Z,
        };
        assert!(got == want);
        n += 1;
    }
    s.cover(true);
    assert!(n == w);
}
