//! Bit-level reference for IEEE 1800-2017 §11.4 operator semantics over 4-state
//! vectors of width 1..=64.  Independent of `veryl_analyzer`: nothing in this
//! file calls into the repository.
//!
//! Representation (same convention as the repository, stated so results can be
//! compared field by field): bit i is
//!   0  -> p=0 m=0     1 -> p=1 m=0     X -> p=0 m=1     Z -> p=1 m=1
//!
//! Where the LRM leaves a 4-state detail open the choice made here is written
//! next to it; those choices only concern *which* of X/Z fills a position the
//! LRM already defines as unknown.

#![allow(dead_code)]

#[derive(Clone, Copy, PartialEq, Eq, Debug)]
pub struct V4 {
    pub p: u128,
    pub m: u128,
    pub w: u32,
}

pub fn mask(w: u32) -> u128 {
    if w >= 128 { u128::MAX } else { (1u128 << w) - 1 }
}

impl V4 {
    pub fn new(p: u128, m: u128, w: u32) -> V4 {
        V4 {
            p: p & mask(w),
            m: m & mask(w),
            w,
        }
    }
    pub fn allx(w: u32) -> V4 {
        V4 {
            p: 0,
            m: mask(w),
            w,
        }
    }
    pub fn known(v: u128, w: u32) -> V4 {
        V4 {
            p: v & mask(w),
            m: 0,
            w,
        }
    }
    pub fn has_xz(&self) -> bool {
        self.m != 0
    }
    /// §11.8.2 / §11.6.1: extend to `w`; sign-extend (replicating the MSB,
    /// including an x/z MSB) only when `sign`.
    pub fn ext(&self, w: u32, sign: bool) -> V4 {
        if w <= self.w {
            return *self;
        }
        let mut p = self.p;
        let mut m = self.m;
        if sign && self.w > 0 {
            let hi = mask(w) & !mask(self.w);
            if (p >> (self.w - 1)) & 1 == 1 {
                p |= hi;
            }
            if (m >> (self.w - 1)) & 1 == 1 {
                m |= hi;
            }
        }
        V4 { p, m, w }
    }
    /// value as a signed integer of its own width (requires no x/z)
    pub fn as_signed(&self) -> i128 {
        if self.w == 0 {
            return 0;
        }
        if (self.p >> (self.w - 1)) & 1 == 1 {
            (self.p as i128) - (1i128 << self.w)
        } else {
            self.p as i128
        }
    }
    /// 1-bit logical truth: Some(true) if any bit is a known 1, Some(false) if
    /// all bits are known 0, None (x) otherwise (§11.4.7).
    pub fn truth(&self) -> Option<bool> {
        if self.p & !self.m != 0 {
            Some(true)
        } else if self.m != 0 {
            None
        } else {
            Some(false)
        }
    }
}

/// a 1-bit result (Some(b) known, None = x) zero-extended to max(1,w)
pub fn bit_result(b: Option<bool>, w: u32) -> V4 {
    let w = w.max(1);
    match b {
        Some(true) => V4 { p: 1, m: 0, w },
        Some(false) => V4 { p: 0, m: 0, w },
        None => V4 { p: 0, m: 1, w },
    }
}

#[derive(Clone, Copy, PartialEq, Eq, Debug)]
pub enum Bin {
    Add,
    Sub,
    Mul,
    Div,
    Rem,
    And,
    Or,
    Xor,
    Xnor,
    Eq,
    Ne,
    EqWild,
    NeWild,
    Gt,
    Ge,
    Lt,
    Le,
    LAnd,
    LOr,
    Shl,
    Shr,
    AShl,
    AShr,
}

#[derive(Clone, Copy, PartialEq, Eq, Debug)]
pub enum Un {
    Plus,
    Minus,
    Not,
    RAnd,
    RNand,
    ROr,
    RNor,
    RXor,
    RXnor,
    LNot,
}

/// Unary operators.  `x` self-width, `w` = context width, `sign` = the operand
/// is extended as signed (context signed and operand signed).
pub fn unary(op: Un, x: V4, w: u32, sign: bool) -> V4 {
    match op {
        Un::Plus => x.ext(w, sign),
        Un::Minus => {
            let e = x.ext(w, sign);
            if e.has_xz() {
                V4::allx(e.w)
            } else {
                V4::known((!e.p).wrapping_add(1), e.w)
            }
        }
        Un::Not => {
            // Table 11-16: ~0=1 ~1=0 ~x=x ~z=x
            let e = x.ext(w, sign);
            V4 {
                p: !e.p & !e.m & mask(e.w),
                m: e.m,
                w: e.w,
            }
        }
        // Reductions (§11.4.9), operand self-determined
        Un::RAnd | Un::RNand => {
            let known0 = (!x.p & !x.m & mask(x.w)) != 0;
            let r = if known0 {
                Some(false)
            } else if x.m != 0 {
                None
            } else {
                Some(true)
            };
            bit_result(if op == Un::RAnd { r } else { r.map(|b| !b) }, w)
        }
        Un::ROr | Un::RNor => {
            let known1 = (x.p & !x.m) != 0;
            let r = if known1 {
                Some(true)
            } else if x.m != 0 {
                None
            } else {
                Some(false)
            };
            bit_result(if op == Un::ROr { r } else { r.map(|b| !b) }, w)
        }
        Un::RXor | Un::RXnor => {
            let r = if x.m != 0 {
                None
            } else {
                Some(x.p.count_ones() % 2 == 1)
            };
            bit_result(if op == Un::RXor { r } else { r.map(|b| !b) }, w)
        }
        Un::LNot => bit_result(x.truth().map(|b| !b), w),
    }
}

/// Shift amount as the LRM reads it: always unsigned; any x/z => None.
pub fn shamt(y: V4) -> Option<u128> {
    if y.m != 0 { None } else { Some(y.p) }
}

/// Binary operators.
/// `w`      context width (result width for context-determined ops; for the
///          1-bit-result ops the width the 1-bit result is zero-extended to)
/// `ctx_s`  the context is signed (caller contract: then both operands are signed)
/// `xs/ys`  the operands' own signedness flags
pub fn binary(op: Bin, x: V4, xs: bool, y: V4, ys: bool, w: u32, ctx_s: bool) -> V4 {
    match op {
        Bin::Add | Bin::Sub | Bin::Mul | Bin::Div | Bin::Rem => {
            let a = x.ext(w, ctx_s && xs);
            let b = y.ext(w, ctx_s && ys);
            if a.has_xz() || b.has_xz() {
                return V4::allx(w);
            }
            match op {
                Bin::Add => V4::known(a.p.wrapping_add(b.p), w),
                Bin::Sub => V4::known(a.p.wrapping_sub(b.p), w),
                Bin::Mul => V4::known(a.p.wrapping_mul(b.p), w),
                Bin::Div | Bin::Rem => {
                    if b.p == 0 {
                        // §11.4.2: division or modulus by zero yields x
                        return V4::allx(w);
                    }
                    if ctx_s {
                        let (sa, sb) = (a.as_signed(), b.as_signed());
                        // i128 never overflows for w <= 64; the w-bit wrap of
                        // MIN / -1 happens in known()
                        let r = if op == Bin::Div { sa / sb } else { sa % sb };
                        V4::known(r as u128, w)
                    } else {
                        let r = if op == Bin::Div { a.p / b.p } else { a.p % b.p };
                        V4::known(r, w)
                    }
                }
                _ => unreachable!(),
            }
        }
        Bin::And | Bin::Or | Bin::Xor | Bin::Xnor => {
            let a = x.ext(w, ctx_s && xs);
            let b = y.ext(w, ctx_s && ys);
            let mw = mask(w);
            let (a0, a1) = (!a.p & !a.m & mw, a.p & !a.m);
            let (b0, b1) = (!b.p & !b.m & mw, b.p & !b.m);
            // Tables 11-11..11-14, per bit
            let (one, zero) = match op {
                Bin::And => (a1 & b1, a0 | b0),
                Bin::Or => (a1 | b1, a0 & b0),
                Bin::Xor => ((a1 & b0) | (a0 & b1), (a1 & b1) | (a0 & b0)),
                Bin::Xnor => ((a1 & b1) | (a0 & b0), (a1 & b0) | (a0 & b1)),
                _ => unreachable!(),
            };
            V4 {
                p: one,
                m: mw & !(one | zero),
                w,
            }
        }
        Bin::Eq | Bin::Ne => {
            // §11.4.5: operands extended to the larger width, sign-extended only
            // when both are signed; a known mismatch decides 0/1, otherwise any
            // x/z makes the relation ambiguous -> x.
            let cw = x.w.max(y.w);
            let s = xs && ys;
            let a = x.ext(cw, s);
            let b = y.ext(cw, s);
            let both_known = !a.m & !b.m & mask(cw);
            let r = if (a.p ^ b.p) & both_known != 0 {
                Some(false)
            } else if a.m != 0 || b.m != 0 {
                None
            } else {
                Some(true)
            };
            bit_result(if op == Bin::Eq { r } else { r.map(|v| !v) }, w)
        }
        Bin::EqWild | Bin::NeWild => {
            // §11.4.6: x/z bits of the RIGHT operand are wildcards; the rest is
            // compared as ==.
            let cw = x.w.max(y.w);
            let s = xs && ys;
            let a = x.ext(cw, s);
            let b = y.ext(cw, s);
            let cmp = !b.m & mask(cw);
            let r = if (a.p ^ b.p) & cmp & !a.m != 0 {
                Some(false)
            } else if a.m & cmp != 0 {
                None
            } else {
                Some(true)
            };
            bit_result(if op == Bin::EqWild { r } else { r.map(|v| !v) }, w)
        }
        Bin::Gt | Bin::Ge | Bin::Lt | Bin::Le => {
            // §11.4.4: any x/z -> x; signed compare only if both signed (ctx_s
            // is that conjunction for relational operators)
            let cw = x.w.max(y.w);
            let a = x.ext(cw, ctx_s && xs);
            let b = y.ext(cw, ctx_s && ys);
            let r = if a.has_xz() || b.has_xz() {
                None
            } else {
                let (l, r) = if ctx_s {
                    (a.as_signed(), b.as_signed())
                } else {
                    (a.p as i128, b.p as i128)
                };
                Some(match op {
                    Bin::Gt => l > r,
                    Bin::Ge => l >= r,
                    Bin::Lt => l < r,
                    Bin::Le => l <= r,
                    _ => unreachable!(),
                })
            };
            bit_result(r, w)
        }
        Bin::LAnd => {
            // §11.4.7 / Table 11-? : 0 && anything = 0, 1 && 1 = 1, else x
            let r = match (x.truth(), y.truth()) {
                (Some(false), _) | (_, Some(false)) => Some(false),
                (Some(true), Some(true)) => Some(true),
                _ => None,
            };
            bit_result(r, w)
        }
        Bin::LOr => {
            let r = match (x.truth(), y.truth()) {
                (Some(true), _) | (_, Some(true)) => Some(true),
                (Some(false), Some(false)) => Some(false),
                _ => None,
            };
            bit_result(r, w)
        }
        Bin::Shl | Bin::AShl | Bin::Shr | Bin::AShr => {
            // §11.4.10: left operand context-determined, right operand
            // self-determined and always unsigned; x/z amount -> all x.
            let a = x.ext(w, ctx_s && xs);
            let Some(n) = shamt(y) else {
                return V4::allx(w);
            };
            let mw = mask(w);
            match op {
                Bin::Shl | Bin::AShl => {
                    if n >= w as u128 {
                        V4 { p: 0, m: 0, w }
                    } else {
                        V4 {
                            p: (a.p << n) & mw,
                            m: (a.m << n) & mw,
                            w,
                        }
                    }
                }
                Bin::Shr | Bin::AShr => {
                    let arith = op == Bin::AShr && ctx_s;
                    // fill = MSB of the (extended) left operand for >>> on a
                    // signed result type, else 0.  An x/z MSB fills with itself.
                    let (fp, fm) = if arith && w > 0 {
                        ((a.p >> (w - 1)) & 1 == 1, (a.m >> (w - 1)) & 1 == 1)
                    } else {
                        (false, false)
                    };
                    let n = if n >= w as u128 { w } else { n as u32 };
                    let fill = mw & !mask(w - n);
                    let sp = if n >= 128 { 0 } else { a.p >> n };
                    let sm = if n >= 128 { 0 } else { a.m >> n };
                    V4 {
                        p: sp | if fp { fill } else { 0 },
                        m: sm | if fm { fill } else { 0 },
                        w,
                    }
                }
                _ => unreachable!(),
            }
        }
    }
}

/// §11.4.3 Table 11-4, negative exponent (exponent signed with its MSB set,
/// no x/z in the exponent): by base value
///   base < -1 or base > 1 -> 0 ; base == 1 -> 1 ; base == 0 -> x ;
///   base == -1 -> 1 if the exponent is even, -1 if odd.
/// Any x/z in the base -> x.
pub fn pow_negative_exp(x: V4, xs: bool, exp_odd: bool, w: u32, ctx_s: bool) -> V4 {
    let a = x.ext(w, ctx_s && xs);
    if a.has_xz() || a.p == 0 {
        return V4::allx(w);
    }
    if a.p == 1 {
        return V4::known(1, w);
    }
    if ctx_s && xs && a.p == mask(w) {
        return V4::known(if exp_odd { mask(w) } else { 1 }, w);
    }
    V4::known(0, w)
}

/// x ** n for small known n (no x/z anywhere), modulo 2^w.
pub fn pow_small(x: V4, xs: bool, n: u32, w: u32, ctx_s: bool) -> V4 {
    let a = x.ext(w, ctx_s && xs);
    if a.has_xz() {
        return V4::allx(w);
    }
    let mut r: u128 = 1;
    let mut i = 0;
    while i < n {
        r = r.wrapping_mul(a.p) & mask(w);
        i += 1;
    }
    V4::known(r, w)
}
