//! C16 (relation only): ClockDomain::{compatible, merge, domain_id} for every
//! triple of domains.

use crate::src::Src;
use veryl_analyzer::symbol::{ClockDomain, SymbolId};

fn dom(s: &mut impl Src) -> ClockDomain {
    let k = s.u8();
    let id = SymbolId(s.usize());
    match k & 3 {
        0 => ClockDomain::Explicit(id),
        1 => ClockDomain::Inferred(id),
        2 => ClockDomain::Implicit,
        _ => ClockDomain::None,
    }
}

fn id_of(d: &ClockDomain) -> Option<usize> {
    match d {
        ClockDomain::Explicit(i) | ClockDomain::Inferred(i) => Some(i.0),
        _ => None,
    }
}

/// explicit <-> inferred with the same id
fn flip(d: &ClockDomain) -> ClockDomain {
    match d {
        ClockDomain::Explicit(i) => ClockDomain::Inferred(*i),
        ClockDomain::Inferred(i) => ClockDomain::Explicit(*i),
        x => *x,
    }
}

pub fn relation(s: &mut impl Src) {
    let x = dom(s);
    let y = dom(s);
    let z = dom(s);
    s.cover(true);
    assert!(x.domain_id().map(|i| i.0) == id_of(&x));
    // reflexive, symmetric
    assert!(x.compatible(&x));
    assert!(x.compatible(&y) == y.compatible(&x));
    // a crossing is reported exactly when: two different ids, or one id vs the implicit domain
    let is_none = |d: &ClockDomain| matches!(d, ClockDomain::None);
    let crossing = match (id_of(&x), id_of(&y)) {
        (Some(a), Some(b)) => a != b,
        (Some(_), None) => !is_none(&y),
        (None, Some(_)) => !is_none(&x),
        (None, None) => false,
    };
    assert!(x.compatible(&y) == !crossing);
    // explicit and inferred annotations are treated alike
    assert!(x.compatible(&y) == flip(&x).compatible(&y));
    assert!(x.compatible(&y) == flip(&x).compatible(&flip(&y)));
    assert!(id_of(&x.merge(&y)) == id_of(&flip(&x).merge(&y)));
    assert!(id_of(&x.merge(&y)) == id_of(&x.merge(&flip(&y))));
    // None is neutral for merge
    assert!(x.merge(&ClockDomain::None) == x);
    assert!(ClockDomain::None.merge(&x) == x);
    // merge keeps an id whenever one operand has one (a concrete domain wins)
    if id_of(&x).is_some() || id_of(&y).is_some() {
        assert!(id_of(&x.merge(&y)).is_some());
    }
    // merging compatible operands never launders a crossing against a third domain
    if x.compatible(&y) && !x.compatible(&z) && !is_none(&x) {
        let m = x.merge(&y);
        assert!(!m.compatible(&z));
    }
    if x.compatible(&y) && !y.compatible(&z) && !is_none(&y) && !is_none(&x) {
        // y's crossing survives too
        let m = x.merge(&y);
        assert!(!m.compatible(&z));
    }
}
