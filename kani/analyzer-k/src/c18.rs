//! C18 (wide-word helpers): every `wide_*` helper of
//! /repo/crates/simulator/src/wide_ops.rs against a limb-independent reference.
//!
//! Buffers are exact-size local arrays placed at a 4-byte misaligned offset
//! (the module documents unaligned access); CBMC's pointer checks therefore
//! also decide the "never reads/writes outside its allocation" clauses.
//!
//! Reference arithmetic: a value of up to 256 bits is a pair of u128 (lo, hi),
//! i.e. carries cross at bit 128, never at the implementation's 64-bit limbs.

use crate::simulator_spliced::wide_ops::*;
use crate::src::Src;

/// NB payload bytes at offset 4 of a T = NB + 4 byte array
pub struct Buf<const NB: usize, const T: usize> {
    raw: [u8; T],
}

impl<const NB: usize, const T: usize> Buf<NB, T> {
    pub fn zero() -> Self {
        assert!(T == NB + 4 && NB % 8 == 0);
        Buf { raw: [0u8; T] }
    }
    pub fn from_limbs(l: &[u64; 4]) -> Self {
        let mut b = Self::zero();
        let mut i = 0;
        while i < NB / 8 {
            let bytes = l[i].to_le_bytes();
            let mut k = 0;
            while k < 8 {
                b.raw[4 + i * 8 + k] = bytes[k];
                k += 1;
            }
            i += 1;
        }
        b
    }
    pub fn draw(s: &mut impl Src) -> (Self, [u64; 4]) {
        let mut l = [0u64; 4];
        let mut i = 0;
        while i < NB / 8 {
            l[i] = s.u64();
            i += 1;
        }
        (Self::from_limbs(&l), l)
    }
    pub fn ptr(&self) -> *const u8 {
        unsafe { self.raw.as_ptr().add(4) }
    }
    pub fn ptr_mut(&mut self) -> *mut u8 {
        unsafe { self.raw.as_mut_ptr().add(4) }
    }
    pub fn limbs(&self) -> [u64; 4] {
        let mut l = [0u64; 4];
        let mut i = 0;
        while i < NB / 8 {
            let mut bytes = [0u8; 8];
            let mut k = 0;
            while k < 8 {
                bytes[k] = self.raw[4 + i * 8 + k];
                k += 1;
            }
            l[i] = u64::from_le_bytes(bytes);
            i += 1;
        }
        l
    }
    /// the 4 lead bytes must never be touched
    pub fn guard_ok(&self) -> bool {
        self.raw[0] == 0 && self.raw[1] == 0 && self.raw[2] == 0 && self.raw[3] == 0
    }
}

// ---- reference: 256-bit values as (lo, hi) ---------------------------------

#[derive(Clone, Copy, PartialEq, Eq, Debug)]
pub struct W {
    pub lo: u128,
    pub hi: u128,
}

pub fn w_of(l: &[u64; 4]) -> W {
    W {
        lo: (l[0] as u128) | ((l[1] as u128) << 64),
        hi: (l[2] as u128) | ((l[3] as u128) << 64),
    }
}

/// all-ones in bit positions [0, bits)
pub fn ones(bits: u32) -> W {
    if bits >= 256 {
        W { lo: u128::MAX, hi: u128::MAX }
    } else if bits >= 128 {
        W { lo: u128::MAX, hi: if bits == 128 { 0 } else { (1u128 << (bits - 128)) - 1 } }
    } else {
        W { lo: if bits == 0 { 0 } else { (1u128 << bits) - 1 }, hi: 0 }
    }
}

pub fn and(a: W, b: W) -> W {
    W { lo: a.lo & b.lo, hi: a.hi & b.hi }
}
pub fn or(a: W, b: W) -> W {
    W { lo: a.lo | b.lo, hi: a.hi | b.hi }
}
pub fn xor(a: W, b: W) -> W {
    W { lo: a.lo ^ b.lo, hi: a.hi ^ b.hi }
}
pub fn not(a: W) -> W {
    W { lo: !a.lo, hi: !a.hi }
}
pub fn trunc(a: W, bits: u32) -> W {
    and(a, ones(bits))
}
pub fn add(a: W, b: W) -> W {
    let (lo, c) = a.lo.overflowing_add(b.lo);
    W { lo, hi: a.hi.wrapping_add(b.hi).wrapping_add(c as u128) }
}
pub fn sub(a: W, b: W) -> W {
    let (lo, c) = a.lo.overflowing_sub(b.lo);
    W { lo, hi: a.hi.wrapping_sub(b.hi).wrapping_sub(c as u128) }
}
pub fn shl(a: W, n: u64) -> W {
    if n >= 256 {
        W { lo: 0, hi: 0 }
    } else if n >= 128 {
        W { lo: 0, hi: a.lo << (n - 128) }
    } else if n == 0 {
        a
    } else {
        W { lo: a.lo << n, hi: (a.hi << n) | (a.lo >> (128 - n)) }
    }
}
pub fn shr(a: W, n: u64) -> W {
    if n >= 256 {
        W { lo: 0, hi: 0 }
    } else if n >= 128 {
        W { lo: a.hi >> (n - 128), hi: 0 }
    } else if n == 0 {
        a
    } else {
        W { lo: (a.lo >> n) | (a.hi << (128 - n)), hi: a.hi >> n }
    }
}
pub fn bit(a: W, i: u32) -> bool {
    if i >= 128 { (a.hi >> (i - 128)) & 1 == 1 } else { (a.lo >> i) & 1 == 1 }
}
pub fn ucmp(a: W, b: W) -> i64 {
    if (a.hi, a.lo) < (b.hi, b.lo) {
        -1
    } else if (a.hi, a.lo) > (b.hi, b.lo) {
        1
    } else {
        0
    }
}
/// sign-extend the low `w` bits of `a` to 256 bits
pub fn sext(a: W, w: u32) -> W {
    let t = trunc(a, w);
    if w > 0 && w < 256 && bit(t, w - 1) { or(t, not(ones(w))) } else { t }
}
pub fn scmp256(a: W, b: W) -> i64 {
    let f = W { lo: 0, hi: 1u128 << 127 };
    ucmp(xor(a, f), xor(b, f))
}

fn same<const NB: usize, const T: usize>(dst: &Buf<NB, T>, want: W) {
    let got = w_of(&dst.limbs());
    let want = trunc(want, (NB * 8) as u32);
    assert!(got.lo == want.lo, "low 128 bits");
    assert!(got.hi == want.hi, "high bits");
    assert!(dst.guard_ok(), "bytes before the buffer untouched");
}

// ---- harness bodies ----------------------------------------------------------

#[derive(Clone, Copy, PartialEq, Eq)]
pub enum B2 {
    And,
    Or,
    Xor,
    XorNot,
    AndNot,
    Add,
    Sub,
}

pub fn binop<const NB: usize, const T: usize>(s: &mut impl Src, op: B2) {
    let (a, al) = Buf::<NB, T>::draw(s);
    let (b, bl) = Buf::<NB, T>::draw(s);
    let mut d = Buf::<NB, T>::zero();
    let (wa, wb) = (w_of(&al), w_of(&bl));
    let nb = NB as u32;
    let want = unsafe {
        match op {
            B2::And => { wide_band(d.ptr_mut(), a.ptr(), b.ptr(), nb); and(wa, wb) }
            B2::Or => { wide_bor(d.ptr_mut(), a.ptr(), b.ptr(), nb); or(wa, wb) }
            B2::Xor => { wide_bxor(d.ptr_mut(), a.ptr(), b.ptr(), nb); xor(wa, wb) }
            B2::XorNot => { wide_bxor_not(d.ptr_mut(), a.ptr(), b.ptr(), nb); not(xor(wa, wb)) }
            B2::AndNot => { wide_band_not(d.ptr_mut(), a.ptr(), b.ptr(), nb); and(wa, not(wb)) }
            B2::Add => { wide_add(d.ptr_mut(), a.ptr(), b.ptr(), nb); add(wa, wb) }
            B2::Sub => { wide_sub(d.ptr_mut(), a.ptr(), b.ptr(), nb); sub(wa, wb) }
        }
    };
    s.cover(true);
    same(&d, want);
}

#[derive(Clone, Copy, PartialEq, Eq)]
pub enum U1 {
    Not,
    Neg,
    Copy,
}

pub fn unop<const NB: usize, const T: usize>(s: &mut impl Src, op: U1) {
    let (a, al) = Buf::<NB, T>::draw(s);
    let mut d = Buf::<NB, T>::zero();
    let wa = w_of(&al);
    let nb = NB as u32;
    let want = unsafe {
        match op {
            U1::Not => { wide_bnot(d.ptr_mut(), a.ptr(), nb); not(wa) }
            U1::Neg => { wide_negate(d.ptr_mut(), a.ptr(), nb); sub(W { lo: 0, hi: 0 }, wa) }
            U1::Copy => { wide_copy(d.ptr_mut(), a.ptr(), nb); wa }
        }
    };
    s.cover(true);
    same(&d, want);
}

/// eq / ne / ucmp / is_nonzero / popcnt_parity
pub fn compare<const NB: usize, const T: usize>(s: &mut impl Src) {
    let (a, al) = Buf::<NB, T>::draw(s);
    let (b, bl) = Buf::<NB, T>::draw(s);
    let (wa, wb) = (w_of(&al), w_of(&bl));
    let nb = NB as u32;
    s.cover(true);
    unsafe {
        assert!(wide_eq(a.ptr(), b.ptr(), nb) == (wa == wb) as i64);
        assert!(wide_ne(a.ptr(), b.ptr(), nb) == (wa != wb) as i64);
        assert!(wide_ucmp(a.ptr(), b.ptr(), nb) == ucmp(wa, wb));
        assert!(wide_is_nonzero(a.ptr(), nb) == (wa.lo != 0 || wa.hi != 0) as i64);
        let par = (wa.lo.count_ones() + wa.hi.count_ones()) & 1;
        assert!(wide_popcnt_parity(a.ptr(), nb) == par as i64);
    }
}

/// shl / lshr with a fully symbolic 64-bit amount
pub fn shifts<const NB: usize, const T: usize>(s: &mut impl Src) {
    let (a, al) = Buf::<NB, T>::draw(s);
    let amount = s.u64();
    let wa = w_of(&al);
    let nb = NB as u32;
    let bits = (NB * 8) as u64;
    let mut d = Buf::<NB, T>::zero();
    unsafe { wide_shl(d.ptr_mut(), a.ptr(), amount, nb) };
    s.cover(amount > 0 && amount < bits);
    same(&d, if amount >= bits { W { lo: 0, hi: 0 } } else { shl(wa, amount) });
    let mut d2 = Buf::<NB, T>::zero();
    unsafe { wide_lshr(d2.ptr_mut(), a.ptr(), amount, nb) };
    same(&d2, if amount >= bits { W { lo: 0, hi: 0 } } else { shr(wa, amount) });
}

/// width-carrying helpers at one concrete width (64(n-1) < width <= 64n):
/// scmp, ashr, is_all_ones, apply_mask, fill_ones
pub fn widthed<const NB: usize, const T: usize>(s: &mut impl Src, width: u32) {
    let packed = pack_nb_width(NB, width as usize);
    let (a0, al) = Buf::<NB, T>::draw(s);
    let (b0, bl) = Buf::<NB, T>::draw(s);
    // documented precondition: operands are stored zero-padded above `width`
    let wa = trunc(w_of(&al), width);
    let wb = trunc(w_of(&bl), width);
    let _ = (a0, b0);
    let a = Buf::<NB, T>::from_limbs(&limbs_of(wa));
    let b = Buf::<NB, T>::from_limbs(&limbs_of(wb));
    s.cover(true);
    unsafe {
        // signed compare at `width`
        let want = scmp256(sext(wa, width), sext(wb, width));
        assert!(wide_scmp(a.ptr(), b.ptr(), packed) == want, "scmp");
        // all-ones over [0,width)
        assert!(wide_is_all_ones(a.ptr(), packed) == (wa == ones(width)) as i64, "is_all_ones");
        // apply_mask clears [width, NB*8) of an arbitrary buffer
        let (mut m, ml) = Buf::<NB, T>::draw(s);
        wide_apply_mask(m.ptr_mut(), std::ptr::null(), packed);
        same(&m, trunc(w_of(&ml), width));
        // fill_ones overwrites with ones(width)
        let (mut f, _) = Buf::<NB, T>::draw(s);
        wide_fill_ones(f.ptr_mut(), std::ptr::null(), packed);
        same(&f, ones(width));
    }
}

pub fn ashr<const NB: usize, const T: usize>(s: &mut impl Src, width: u32) {
    let packed = pack_nb_width(NB, width as usize);
    let (_, al) = Buf::<NB, T>::draw(s);
    let wa = trunc(w_of(&al), width);
    let a = Buf::<NB, T>::from_limbs(&limbs_of(wa));
    let amount = s.u64();
    let mut d = Buf::<NB, T>::zero();
    unsafe { wide_ashr(d.ptr_mut(), a.ptr(), amount, packed) };
    // arithmetic shift of the width-bit value, result zero-padded above width
    let sh = if amount >= width as u64 { W { lo: 0, hi: 0 } } else { shr(wa, amount) };
    let fill = if bit(wa, width - 1) {
        let keep = if amount >= width as u64 { 0 } else { width - amount as u32 };
        and(ones(width), not(ones(keep)))
    } else {
        W { lo: 0, hi: 0 }
    };
    // (at width 1 no amount lies strictly between 0 and the width: the witness is then a set sign bit alone)
    s.cover((width == 1 || (amount > 0 && amount < width as u64)) && bit(wa, width - 1));
    same(&d, or(sh, fill));
}

pub fn limbs_of(w: W) -> [u64; 4] {
    [w.lo as u64, (w.lo >> 64) as u64, w.hi as u64, (w.hi >> 64) as u64]
}

/// wide_resize: source of SNB bytes holding a `src_w`-bit value (zero padded),
/// destination of DNB bytes; zero- or sign-extension.  The source allocation
/// is exactly SNB bytes, so reading past it is a CBMC pointer-check failure.
pub fn resize<const SNB: usize, const ST: usize, const DNB: usize, const DT: usize>(
    s: &mut impl Src,
    src_w: u32,
) {
    let (_, sl) = Buf::<SNB, ST>::draw(s);
    let ws = trunc(w_of(&sl), src_w);
    let src = Buf::<SNB, ST>::from_limbs(&limbs_of(ws));
    let signed = s.bool();
    let info = (pack_nb_width(SNB, src_w as usize) as u64) | ((signed as u64) << 32);
    let (mut d, _) = Buf::<DNB, DT>::draw(s);
    unsafe { wide_resize(d.ptr_mut(), src.ptr(), info, DNB as u32) };
    s.cover(src_w == 0 || (signed && bit(ws, src_w.max(1) - 1)));
    same(&d, if signed { sext(ws, src_w) } else { ws });
}

/// wide_scmp_asym: operands share the buffer size but carry their own widths
pub fn scmp_asym<const NB: usize, const T: usize>(s: &mut impl Src, aw: u32, bw: u32) {
    let (_, al) = Buf::<NB, T>::draw(s);
    let (_, bl) = Buf::<NB, T>::draw(s);
    let wa = trunc(w_of(&al), aw);
    let wb = trunc(w_of(&bl), bw);
    let a = Buf::<NB, T>::from_limbs(&limbs_of(wa));
    let b = Buf::<NB, T>::from_limbs(&limbs_of(wb));
    let r = unsafe {
        wide_scmp_asym(a.ptr(), b.ptr(), pack_nb_width(NB, aw as usize), pack_nb_width(NB, bw as usize))
    };
    s.cover(true);
    assert!(r == scmp256(sext(wa, aw), sext(wb, bw)), "scmp_asym");
}

/// wide_scmp_asym where the narrower operand lives in a SHORTER allocation
pub fn scmp_asym_short<const ANB: usize, const AT: usize, const BNB: usize, const BT: usize>(
    s: &mut impl Src,
    aw: u32,
    bw: u32,
) {
    let (_, al) = Buf::<ANB, AT>::draw(s);
    let (_, bl) = Buf::<BNB, BT>::draw(s);
    let wa = trunc(w_of(&al), aw);
    let wb = trunc(w_of(&bl), bw);
    let a = Buf::<ANB, AT>::from_limbs(&limbs_of(wa));
    let b = Buf::<BNB, BT>::from_limbs(&limbs_of(wb));
    let r = unsafe {
        wide_scmp_asym(a.ptr(), b.ptr(), pack_nb_width(ANB, aw as usize), pack_nb_width(BNB, bw as usize))
    };
    s.cover(true);
    assert!(r == scmp256(sext(wa, aw), sext(wb, bw)), "scmp_asym (own allocations)");
}

/// wide_mul, full symbolic, one limb (the only size where symbolic x symbolic
/// multiplier equivalence is cheap enough)
pub fn mul_1limb(s: &mut impl Src) {
    let (a, al) = Buf::<8, 12>::draw(s);
    let (b, bl) = Buf::<8, 12>::draw(s);
    let mut d = Buf::<8, 12>::zero();
    unsafe { wide_mul(d.ptr_mut(), a.ptr(), b.ptr(), 8) };
    s.cover(true);
    same(&d, W { lo: (al[0].wrapping_mul(bl[0])) as u128, hi: 0 });
}

/// wide_mul with `a` fully symbolic and `b` = a K-bit symbolic value placed at
/// bit position `pos` (concrete): reference = shift-and-add over the K bits.
pub fn mul_sparse<const NB: usize, const T: usize>(s: &mut impl Src, pos: u32, swap: bool) {
    const K: u32 = 3;
    let (a, al) = Buf::<NB, T>::draw(s);
    let small = (s.u8() as u64) & ((1 << K) - 1);
    let wb = shl(W { lo: small as u128, hi: 0 }, pos as u64);
    let wb = trunc(wb, (NB * 8) as u32);
    let b = Buf::<NB, T>::from_limbs(&limbs_of(wb));
    let wa = w_of(&al);
    let mut d = Buf::<NB, T>::zero();
    unsafe {
        if swap {
            wide_mul(d.ptr_mut(), b.ptr(), a.ptr(), NB as u32)
        } else {
            wide_mul(d.ptr_mut(), a.ptr(), b.ptr(), NB as u32)
        }
    };
    let mut acc = W { lo: 0, hi: 0 };
    let mut i = 0;
    while i < K {
        if (small >> i) & 1 == 1 {
            acc = add(acc, shl(wa, (pos + i) as u64));
        }
        i += 1;
    }
    s.cover(small == (1 << K) - 1);
    same(&d, acc);
}

/// pack/unpack of (nb, width) as used by every width-carrying helper
pub fn pack_roundtrip(s: &mut impl Src) {
    let nb = s.usize();
    let width = s.usize();
    s.assume(nb < 65536 && width < 65536);
    let p = pack_nb_width(nb, width);
    s.cover(true);
    assert!((p & 0xFFFF) as usize == nb && (p >> 16) as usize == width);
}
