//! Native replay of a Kani counterexample: `replay <harness> <draws>` where
//! draws is `b,b,b/b,b/...` (one '/'-separated group per kani::any()).
//! exit 0: body ran without assertion failure (NOT reproduced)
//! exit 1: an assertion of the body failed natively (reproduced)
//! exit 3: a harness assumption is violated by the draws; exit 4: unknown harness
#[cfg(kani)]
fn main() {}

#[cfg(not(kani))]
fn main() {
    let a: Vec<String> = std::env::args().collect();
    if a.len() < 2 {
        for h in analyzer_k::HARNESSES {
            println!("{h}");
        }
        return;
    }
    if a[1] == "--sweep" {
        std::panic::set_hook(Box::new(|_| {}));
        analyzer_k::c17::sweep();
        return;
    }
    let draws = analyzer_k::src::parse_draws(a.get(2).map(|s| s.as_str()).unwrap_or(""));
    let mut rec = analyzer_k::src::Rec::new(draws);
    let name = a[1].clone();
    let r = std::panic::catch_unwind(std::panic::AssertUnwindSafe(|| {
        analyzer_k::run_native(&name, &mut rec)
    }));
    match r {
        Ok(true) => {
            println!("REPLAY: no assertion failed");
            std::process::exit(0)
        }
        Ok(false) => {
            eprintln!("REPLAY: unknown harness {name}");
            std::process::exit(4)
        }
        Err(_) => {
            println!("REPLAY: assertion failed natively (reproduced)");
            std::process::exit(1)
        }
    }
}
