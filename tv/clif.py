#!/usr/bin/env python3
"""Translation validation of the Cranelift lowering (C18, JIT engine).

`tvdump clif` builds the simulator IR of a design with use_jit = true and
dump_cranelift = true, so the REAL JIT front end prints the Cranelift IR (CLIF)
it is about to compile, plus the buffer layout of every variable.  This module
gives that CLIF text a bit-vector semantics (byte-addressed symbolic memory,
path-merging over the acyclic CFG) and z3 decides, for ALL input values, that
the values the CLIF stores for the output ports equal the word-level RTL terms
of the same design (tvdump rtl).

Subset: integer ALU ops, compares, selects, extensions, i128 concat/split,
loads/stores at constant offsets from the function's pointer parameters,
brif/jump with block parameters, return.  Anything else (calls to the wide
helpers, computed addresses, loops) makes the design "unsupported" -- reported,
never guessed.  What Cranelift's own instruction selection and register
allocation do after this IR is outside the claim.
"""
import json
import re
import sys

import z3


class Unsupported(Exception):
    pass


TY = {"i8": 8, "i16": 16, "i32": 32, "i64": 64, "i128": 128}


def parse_functions(text):
    """-> list of functions; function = dict(params=[(name,ty)], blocks={name: dict(params, insts)}, order=[names])"""
    funcs = []
    cur = None
    blk = None
    for raw in text.splitlines():
        line = raw.split(";")[0].rstrip()
        s = line.strip()
        if not s:
            continue
        if s.startswith("function "):
            cur = dict(blocks={}, order=[], decls=[])
            funcs.append(cur)
            blk = None
            continue
        if cur is None:
            continue
        if s == "}":
            cur = None
            continue
        m = re.match(r"^(block\d+)(?:\((.*?)\))?(?:\s+cold)?:$", s)
        if m:
            params = []
            if m.group(2):
                for p in m.group(2).split(","):
                    n, t = p.strip().split(":")
                    params.append((n.strip(), t.strip()))
            blk = dict(params=params, insts=[])
            cur["blocks"][m.group(1)] = blk
            cur["order"].append(m.group(1))
            continue
        if blk is None:
            cur["decls"].append(s)
            continue
        blk["insts"].append(s)
    return funcs


def bv(v, w):
    return z3.BitVecVal(v & ((1 << w) - 1), w)


def parse_int(tok):
    tok = tok.replace("_", "")
    return int(tok, 0)


def block_ref(tok):
    m = re.match(r"^(block\d+)(?:\((.*)\))?$", tok.strip())
    if not m:
        raise Unsupported(f"block reference {tok}")
    args = [a.strip() for a in m.group(2).split(",")] if m.group(2) else []
    return m.group(1), args


def split_args(s):
    out, depth, cur = [], 0, ""
    for ch in s:
        if ch == "(":
            depth += 1
        elif ch == ")":
            depth -= 1
        if ch == "," and depth == 0:
            out.append(cur.strip())
            cur = ""
        else:
            cur += ch
    if cur.strip():
        out.append(cur.strip())
    return out


class Mem:
    """byte-addressed memory per pointer parameter; unknown bytes are fresh symbols named by region/offset"""

    def __init__(self, init=None):
        self.b = dict(init or {})

    def copy(self):
        return Mem(self.b)

    def byte(self, region, off):
        k = (region, off)
        if k not in self.b:
            self.b[k] = z3.BitVec(f"mem_{region}_{off}", 8)
        return self.b[k]

    def load(self, region, off, nbytes):
        bs = [self.byte(region, off + i) for i in range(nbytes)]
        return z3.Concat(*reversed(bs)) if nbytes > 1 else bs[0]

    def store(self, region, off, val, nbytes):
        for i in range(nbytes):
            self.b[(region, off + i)] = z3.Extract(8 * i + 7, 8 * i, val)


def merge_mem(c, a, b):
    keys = set(a.b) | set(b.b)
    out = Mem()
    for k in keys:
        x = a.byte(*k)
        y = b.byte(*k)
        out.b[k] = x if x.eq(y) else z3.If(c, x, y)
    return out


CC = {
    "eq": lambda a, b: a == b, "ne": lambda a, b: a != b,
    "ult": z3.ULT, "ule": z3.ULE, "ugt": z3.UGT, "uge": z3.UGE,
    "slt": lambda a, b: a < b, "sle": lambda a, b: a <= b, "sgt": lambda a, b: a > b, "sge": lambda a, b: a >= b,
}


def run_function(fn, mem, regions):
    """symbolic execution of one CLIF function over `mem`; regions: param index -> region name"""
    order = fn["order"]
    blocks = fn["blocks"]
    if not order:
        return mem
    # incoming edges: block -> list of (cond, env_values_for_params, mem)
    incoming = {b: [] for b in order}
    entry = order[0]
    pvals = {}
    for i, (n, t) in enumerate(blocks[entry]["params"]):
        pvals[n] = ("ptr", regions.get(i, f"p{i}"), 0, None) if t == "i64" and i in regions else z3.BitVec(f"arg{i}", TY[t])
    incoming[entry].append((z3.BoolVal(True), [pvals[n] for n, _ in blocks[entry]["params"]], mem))
    # topological order over the CFG (reject loops)
    succ = {}
    for b in order:
        s = []
        for ins in blocks[b]["insts"]:
            if ins.startswith("brif "):
                a = split_args(ins[5:])
                s += [block_ref(a[1])[0], block_ref(a[2])[0]]
            elif ins.startswith("jump "):
                s.append(block_ref(ins[5:])[0])
            elif ins.startswith("br_table "):
                a = split_br_table(ins)
                s += [a[1][0]] + [t for t, _ in a[2]]
        succ[b] = s
    state, topo = {}, []

    def dfs(b):
        if state.get(b) == 1:
            raise Unsupported("loop in CLIF control flow")
        if state.get(b) == 2:
            return
        state[b] = 1
        for s in succ[b]:
            dfs(s)
        state[b] = 2
        topo.append(b)
    dfs(entry)
    topo.reverse()
    returns = []
    env = {}
    for b in topo:
        inc = incoming[b]
        if not inc:
            continue
        cond = z3.simplify(z3.Or(*[c for c, _, _ in inc]))
        # merge parameters and memory
        params = blocks[b]["params"]
        vals, m = inc[0][1], inc[0][2]
        for (c, v2, m2) in inc[1:]:
            nv = []
            for x, y in zip(vals, v2):
                if isinstance(x, tuple) or isinstance(y, tuple):
                    if x != y:
                        raise Unsupported("pointer-valued block parameter differs between predecessors")
                    nv.append(x)
                else:
                    nv.append(z3.If(c, y, x))
            vals = nv
            m = merge_mem(c, m2, m)
        for (n, _), v in zip(params, vals):
            env[n] = v
        m = m.copy()
        for ins in blocks[b]["insts"]:
            t = exec_inst(ins, env, m, cond)
            if t is None:
                continue
            kind = t[0]
            if kind == "return":
                returns.append((cond, m))
            elif kind == "jump":
                tgt, args = t[1], t[2]
                incoming[tgt].append((cond, [val(env, a) for a in args], m))
            elif kind == "br_table":
                x, (td, ad), tgts = t[1], t[2], t[3]
                hit = []
                for k, (tk, ak) in enumerate(tgts):
                    ck = x == bv(k, x.size())
                    hit.append(ck)
                    incoming[tk].append((z3.And(cond, ck), [val(env, a) for a in ak], m))
                incoming[td].append((z3.And(cond, z3.Not(z3.Or(*hit)) if hit else z3.BoolVal(True)),
                                     [val(env, a) for a in ad], m))
            elif kind == "brif":
                c, (t1, a1), (t2, a2) = t[1], t[2], t[3]
                incoming[t1].append((z3.And(cond, c), [val(env, a) for a in a1], m))
                incoming[t2].append((z3.And(cond, z3.Not(c)), [val(env, a) for a in a2], m))
    if not returns:
        raise Unsupported("function without return")
    out = returns[0][1]
    for (c, m) in returns[1:]:
        out = merge_mem(c, m, out)
    return out


def split_br_table(ins):
    """br_table vN, blockD(args), [blockA(args), blockB, ...] -> (index value name, default, [targets])"""
    m = re.match(r"^br_table (v\d+), (.*?), \[(.*)\]$", ins)
    if not m:
        raise Unsupported("br_table syntax")
    return m.group(1), block_ref(m.group(2)), [block_ref(t) for t in split_args(m.group(3))]


def val(env, name):
    if name not in env:
        raise Unsupported(f"use of undefined value {name}")
    return env[name]


def as_bv(x):
    if isinstance(x, tuple):
        raise Unsupported("pointer used as data")
    return x


CTX = dict(cells={}, oob=[])   # cells: region -> [(offset, nbytes)] from the layout; oob: address-range obligations


def addr(env, tok):
    m = re.match(r"^(v\d+)(?:([+-])(\d+))?$", tok.strip())
    if not m:
        raise Unsupported(f"address {tok}")
    base = val(env, m.group(1))
    if not isinstance(base, tuple):
        raise Unsupported("address is not derived from a pointer parameter")
    off = int(m.group(3) or 0) * (-1 if m.group(2) == "-" else 1)
    return base[1], base[2] + off, base[3]


def sym_load(mem, region, off, sym, n, path):
    if sym is None:
        return mem.load(region, off, n)
    cands = [(o, nb) for (o, nb) in CTX["cells"].get(region, []) if nb >= n]
    if not cands:
        raise Unsupported("computed address without candidate cells")
    a = bv(off, 64) + sym
    res = z3.BitVec(f"oob_{len(CTX['oob'])}", 8 * n)
    hits = []
    for (o, _) in cands:
        c = a == bv(o, 64)
        hits.append(c)
        res = z3.If(c, mem.load(region, o, n), res)
    CTX["oob"].append(z3.Implies(path, z3.Or(*hits)))
    return res


def sym_store(mem, region, off, sym, v, n, path):
    if sym is None:
        mem.store(region, off, v, n)
        return
    cands = [(o, nb) for (o, nb) in CTX["cells"].get(region, []) if nb >= n]
    if not cands:
        raise Unsupported("computed address without candidate cells")
    a = bv(off, 64) + sym
    hits = []
    for (o, _) in cands:
        c = a == bv(o, 64)
        hits.append(c)
        for i in range(n):
            mem.b[(region, o + i)] = z3.If(c, z3.Extract(8 * i + 7, 8 * i, v), mem.byte(region, o + i))
    CTX["oob"].append(z3.Implies(path, z3.Or(*hits)))


FLAGS = {"notrap", "aligned", "readonly", "little", "big", "can_move", "heap", "table", "vmctx", "checked"}


def exec_inst(ins, env, mem, path=None):
    path = z3.BoolVal(True) if path is None else path
    if ins == "return":
        return ("return",)
    if ins.startswith("jump "):
        t, a = block_ref(ins[5:])
        return ("jump", t, a)
    if ins.startswith("brif "):
        a = split_args(ins[5:])
        c = as_bv(val(env, a[0]))
        return ("brif", c != 0, block_ref(a[1]), block_ref(a[2]))
    if ins.startswith("br_table "):
        idx, dflt, tgts = split_br_table(ins)
        return ("br_table", as_bv(val(env, idx)), dflt, tgts)
    if "=" in ins.split(" ")[1:2] or re.match(r"^v\d+(, v\d+)* = ", ins):
        lhs, rhs = ins.split(" = ", 1)
        results = [x.strip() for x in lhs.split(",")]
    else:
        results, rhs = [], ins
    parts = rhs.split(None, 1)
    opfull = parts[0]
    rest = parts[1] if len(parts) > 1 else ""
    op, _, ty = opfull.partition(".")
    toks = [t for t in rest.replace(",", " , ").split() if t not in FLAGS]
    args = [a for a in split_args(" ".join(toks))]

    def w_of(x):
        return as_bv(x).size()

    def setr(v):
        env[results[0]] = v

    # ---- memory
    if op in ("load", "uload8", "uload16", "uload32", "sload8", "sload16", "sload32"):
        region, off, sym = addr(env, args[0])
        if op == "load":
            if ty not in TY:
                raise Unsupported(f"load type {ty}")
            setr(sym_load(mem, region, off, sym, TY[ty] // 8, path))
        else:
            n = int(op[5:]) // 8
            rw = TY.get(ty or "i64")
            v = sym_load(mem, region, off, sym, n, path)
            setr(z3.ZeroExt(rw - 8 * n, v) if op[0] == "u" else z3.SignExt(rw - 8 * n, v))
        return None
    if op in ("store", "istore8", "istore16", "istore32"):
        v = as_bv(val(env, args[0]))
        region, off, sym = addr(env, args[1])
        n = v.size() // 8 if op == "store" else int(op[6:]) // 8
        sym_store(mem, region, off, sym, v, n, path)
        return None
    # ---- constants
    if op == "iconst":
        setr(bv(parse_int(args[0]), TY[ty]))
        return None
    # ---- pointer arithmetic on parameters with constants only
    if op in ("icmp", "icmp_imm"):
        cc, first = args[0].split()
        a = as_bv(val(env, first))
        b = as_bv(val(env, args[1])) if op == "icmp" else bv(parse_int(args[1]), a.size())
        env[results[0]] = z3.If(CC[cc](a, b), bv(1, 8), bv(0, 8))
        return None
    a0 = val(env, args[0]) if args and re.match(r"^v\d+$", args[0]) else None
    a1 = val(env, args[1]) if len(args) > 1 and re.match(r"^v\d+$", args[1]) else None
    if op == "iadd" and isinstance(a1, tuple) and not isinstance(a0, tuple):
        a0, a1 = a1, a0
    if isinstance(a0, tuple):
        if op == "iadd_imm":
            setr((a0[0], a0[1], a0[2] + parse_int(args[1]), a0[3]))
            return None
        if op == "iadd":
            if isinstance(a1, tuple):
                raise Unsupported("pointer + pointer")
            bs = z3.simplify(as_bv(a1))
            if z3.is_bv_value(bs):
                setr((a0[0], a0[1], a0[2] + bs.as_signed_long(), a0[3]))
            else:
                b64 = bs if bs.size() == 64 else z3.ZeroExt(64 - bs.size(), bs)
                setr((a0[0], a0[1], a0[2], b64 if a0[3] is None else a0[3] + b64))
            return None
        if op == "ireduce":
            setr(z3.BitVec(f"ptrbits_{a0[1]}", TY[ty]))
            return None
        raise Unsupported(f"{op} on a pointer")
    X = [as_bv(val(env, a)) if re.match(r"^v\d+$", a) else a for a in args]

    def amount(x, y):
        # CLIF: the shift amount is taken modulo the bit width of the shifted value
        w = x.size()
        y = y if not isinstance(y, str) else bv(parse_int(y), w)
        if y.size() > w:
            y = z3.Extract(w - 1, 0, y)
        elif y.size() < w:
            y = z3.ZeroExt(w - y.size(), y)
        return z3.URem(y, bv(w, w)) if (w & (w - 1)) else (y & bv(w - 1, w))

    def imm(x, tok):
        return bv(parse_int(tok), x.size())

    binops = {"iadd": lambda a, b: a + b, "isub": lambda a, b: a - b, "imul": lambda a, b: a * b,
              "band": lambda a, b: a & b, "bor": lambda a, b: a | b, "bxor": lambda a, b: a ^ b,
              "band_not": lambda a, b: a & ~b, "bor_not": lambda a, b: a | ~b, "bxor_not": lambda a, b: a ^ ~b,
              "udiv": z3.UDiv, "urem": z3.URem, "sdiv": lambda a, b: a / b, "srem": z3.SRem,
              "umin": lambda a, b: z3.If(z3.ULE(a, b), a, b), "umax": lambda a, b: z3.If(z3.UGE(a, b), a, b),
              "smin": lambda a, b: z3.If(a <= b, a, b), "smax": lambda a, b: z3.If(a >= b, a, b)}
    if op in binops:
        setr(binops[op](X[0], X[1]))
        return None
    if op.endswith("_imm") and op[:-4] in binops:
        setr(binops[op[:-4]](X[0], imm(X[0], args[1])))
        return None
    if op == "irsub_imm":
        setr(imm(X[0], args[1]) - X[0])
        return None
    if op in ("ishl", "ushr", "sshr", "rotl", "rotr"):
        x, n = X[0], amount(X[0], X[1])
        setr({"ishl": x << n, "ushr": z3.LShR(x, n), "sshr": x >> n,
              "rotl": z3.RotateLeft(x, n), "rotr": z3.RotateRight(x, n)}[op])
        return None
    if op in ("ishl_imm", "ushr_imm", "sshr_imm", "rotl_imm", "rotr_imm"):
        x = X[0]
        n = amount(x, args[1])
        setr({"ishl_imm": x << n, "ushr_imm": z3.LShR(x, n), "sshr_imm": x >> n,
              "rotl_imm": z3.RotateLeft(x, n), "rotr_imm": z3.RotateRight(x, n)}[op])
        return None
    if op == "bnot":
        setr(~X[0])
        return None
    if op == "ineg":
        setr(-X[0])
        return None
    if op == "iabs":
        setr(z3.If(X[0] < 0, -X[0], X[0]))
        return None
    if op in ("icmp", "icmp_imm"):
        cc, first = args[0].split()
        a = as_bv(val(env, first))
        b = as_bv(val(env, args[1])) if op == "icmp" else imm(a, args[1])
        setr(z3.If(CC[cc](a, b), bv(1, 8), bv(0, 8)))
        return None
    if op in ("select", "select_spectre_guard"):
        c = X[0]
        setr(z3.If(c != 0, X[1], X[2]))
        return None
    if op == "uextend":
        setr(z3.ZeroExt(TY[ty] - X[0].size(), X[0]))
        return None
    if op == "sextend":
        setr(z3.SignExt(TY[ty] - X[0].size(), X[0]))
        return None
    if op == "ireduce":
        setr(z3.Extract(TY[ty] - 1, 0, X[0]))
        return None
    if op == "iconcat":
        setr(z3.Concat(X[1], X[0]))      # (lo, hi)
        return None
    if op == "isplit":
        env[results[0]] = z3.Extract(63, 0, X[0])
        env[results[1]] = z3.Extract(127, 64, X[0])
        return None
    if op == "popcnt":
        x = X[0]
        w = x.size()
        acc = bv(0, w)
        for i in range(w):
            acc = acc + z3.ZeroExt(w - 1, z3.Extract(i, i, x))
        setr(acc)
        return None
    if op in ("clz", "ctz"):
        x = X[0]
        w = x.size()
        acc = bv(w, w)
        rng = range(w) if op == "clz" else range(w - 1, -1, -1)
        for k, i in enumerate(rng):
            # clz: scanning from bit 0 upwards, the last set bit seen is the highest
            cnt = (w - 1 - i) if op == "clz" else i
            acc = z3.If(z3.Extract(i, i, x) == 1, bv(cnt, w), acc)
        setr(acc)
        return None
    if op in ("umulhi", "smulhi"):
        x, y = X[0], X[1]
        w = x.size()
        ext = z3.ZeroExt if op == "umulhi" else z3.SignExt
        setr(z3.Extract(2 * w - 1, w, ext(w, x) * ext(w, y)))
        return None
    if op == "bitcast":
        setr(X[-1])
        return None
    if op == "nop":
        return None
    raise Unsupported(f"CLIF instruction `{op}`")


# ---- the miter ---------------------------------------------------------------------------------

def rtl_terms(rtl):
    """z3 terms for the RTL outputs over fresh in_<name> constants (reuses miter.parse_rtl)"""
    import miter
    return miter.parse_rtl(rtl)


def check_design(clif_text, layout, rtl, timeout_ms=20000):
    if layout.get("comb_interpreted"):
        raise Unsupported(f"{layout['comb_interpreted']} comb statement(s) are run by the interpreter between JIT chunks")
    """comb-only designs: run every dumped function in order over one memory"""
    if rtl["states"] or layout.get("ff_bytes", 0) or layout.get("children", 0):
        raise Unsupported("sequential or hierarchical design (comb-only subset)")
    if layout.get("comb_passes", 1) != 1:
        raise Unsupported("more than one comb pass")
    funcs = parse_functions(clif_text)
    if not funcs:
        raise Unsupported("no CLIF function (design not JIT-compiled)")
    CTX["cells"] = {"comb": [(e["off"], v["native_bytes"]) for v in layout["vars"] for e in v["elems"] if e["kind"] == "comb"]}
    CTX["oob"] = []
    R = rtl_terms(rtl)
    vars_by_port = {v["port"]: v for v in layout["vars"] if v.get("port")}
    mem = Mem()
    assumptions = list(R["asm"])
    for i in rtl["inputs"]:
        v = vars_by_port.get(i["name"])
        if not v or any(e["kind"] != "comb" for e in v["elems"]):
            raise Unsupported(f"input {i['name']} not stored in comb cells")
        nb, ew, n = v["native_bytes"], v["width"], len(v["elems"])
        if ew * n != i["width"]:
            raise Unsupported(f"input {i['name']}: layout {n}x{ew} bits vs {i['width']} RTL bits")
        x = R["in"][i["name"]]
        for k, e in enumerate(v["elems"]):
            xe = z3.Extract((k + 1) * ew - 1, k * ew, x) if n > 1 else x
            mem.store("comb", e["off"], z3.ZeroExt(8 * nb - ew, xe) if 8 * nb > ew else xe, nb)
    # every other cell holds a previous (clean) value of its variable: bits above the declared width
    # are zero -- the buffers start zeroed and every store is width-masked or narrower than the cell
    input_names = {i["name"] for i in rtl["inputs"]}
    olds = []
    for v in layout["vars"]:
        if v.get("port") in input_names:
            continue
        for k, e in enumerate(v["elems"]):
            if e["kind"] != "comb":
                raise Unsupported("flip-flop storage in a comb-only design")
            nb, w = v["native_bytes"], v["width"]
            if e.get("const_init") is not None:
                # a param / const: its cell holds the value written at build time
                mem.store("comb", e["off"], z3.BitVecVal(int(e["const_init"], 16), 8 * nb), nb)
                continue
            old = z3.BitVec(f"old_{v['path']}_{k}", w)
            olds.append(old)
            mem.store("comb", e["off"], z3.ZeroExt(8 * nb - w, old) if 8 * nb > w else old, nb)
    # cells outside every variable (rename temporaries of version split etc.): the buffers start zeroed, so a byte
    # no instruction ever stores to is zero; stored bytes keep an arbitrary previous content
    written, symbolic_store = set(), False
    cell_bytes = {e["off"]: v["native_bytes"] for v in layout["vars"] for e in v["elems"] if e["kind"] == "comb"}
    for m_ in re.finditer(r"\b(istore8|istore16|istore32|store)(?:\.\w+)?\b[^\n]*?, (v\d+)(?:\+(\d+))?\s*(?:;|$)", clif_text, re.M):
        kind, base, off = m_.group(1), m_.group(2), int(m_.group(3) or 0)
        if base != "v1":
            symbolic_store = symbolic_store or base != "v0"
            continue
        n = {"istore8": 1, "istore16": 2, "istore32": 4}.get(kind) or cell_bytes.get(off, 16)
        written.update(range(off, off + n))
    if not symbolic_store:
        for off in range(int(layout.get("comb_bytes", 0))):
            if ("comb", off) not in mem.b and off not in written:
                mem.b[("comb", off)] = z3.BitVecVal(0, 8)
    for fn in funcs:
        mem = run_function(fn, mem, {0: "ff", 1: "comb"})
    diffs = []
    def out_value(name, width, m):
        v = vars_by_port.get(name)
        if not v or any(e["kind"] != "comb" for e in v["elems"]):
            raise Unsupported(f"output {name} not stored in comb cells")
        nb, ew, n = v["native_bytes"], v["width"], len(v["elems"])
        if ew * n != width:
            raise Unsupported(f"output {name}: layout {n}x{ew} bits vs {width} RTL bits")
        parts = [z3.Extract(ew - 1, 0, m.load("comb", e["off"], nb)) for e in v["elems"]]
        return z3.Concat(*reversed(parts)) if n > 1 else parts[0]
    for o in rtl["outputs"]:
        diffs.append((o["name"], out_value(o["name"], o["width"], mem) != R["out"][o["name"]]))
    s = z3.Solver()
    s.set("timeout", timeout_ms)
    for a in assumptions:
        s.add(a)
    # computed addresses must hit a cell of some variable (the JIT clamps dynamic indices)
    diffs += [(f"address-in-range#{k}", z3.Not(o)) for k, o in enumerate(CTX["oob"])]
    # one query per obligation (an OR over all outputs is much harder for z3 than its parts);
    # a timeout is retried once through simplify + bit-blast + SAT
    queries = 0
    r = z3.unsat
    for _, d in diffs:
        s.push()
        s.add(d)
        queries += 1
        r = s.check()
        if r == z3.unknown:
            t = z3.Then("simplify", "solve-eqs", "bit-blast", "sat").solver()
            t.set("timeout", timeout_ms)
            for a in assumptions:
                t.add(a)
            t.add(d)
            queries += 1
            r2 = t.check()
            if r2 == z3.unsat:
                r = z3.unsat
        if r != z3.unsat:
            break
        s.pop()
    if r == z3.unsat:
        return dict(verdict="equal", obligations=len(diffs), functions=len(funcs), queries=queries)
    if r == z3.unknown:
        return dict(verdict="inconclusive", why="solver timeout", queries=queries)
    m = s.model()
    # prefer a model whose previous buffer contents are all zero: that one is reproducible on a freshly built
    # simulator (a store the IR no longer performs leaves the zero-initialised cell behind)
    fresh = False
    s.push()
    for o in olds:
        s.add(o == 0)
    if s.check() == z3.sat:
        m = s.model()
        fresh = True
    s.pop()
    queries += 1
    bad = [n for n, d in diffs if z3.is_true(m.eval(d, model_completion=True))]
    ins = {i["name"]: format(m.eval(R["in"][i["name"]], model_completion=True).as_long(), "x") for i in rtl["inputs"]}
    port = bad[0]
    if port not in vars_by_port:
        return dict(verdict="differs", port=port, inputs=ins, jit_value="?", rtl_value="?", queries=queries)
    w = next(o["width"] for o in rtl["outputs"] if o["name"] == port)
    got = m.eval(out_value(port, w, mem), model_completion=True)
    want = m.eval(R["out"][port], model_completion=True)
    return dict(verdict="differs", port=port, inputs=ins, jit_value=format(got.as_long(), "x"),
                rtl_value=format(want.as_long(), "x"), queries=queries,
                fresh_buffers=fresh)


if __name__ == "__main__":
    import subprocess
    path, top = sys.argv[1], sys.argv[2]
    p = subprocess.run(["/verif/.target/tvdump/debug/tvdump", "clif", path, top], capture_output=True, text=True)
    out = p.stdout
    i = out.rfind("LAYOUT ")
    layout = json.loads(out[i + 7:])
    clif_text = out[:i]
    subprocess.run(["/verif/.target/tvdump/debug/tvdump", "rtl", path, "/tmp/clif_rtl.json", top], check=True)
    rm = json.load(open("/tmp/clif_rtl.json"))["modules"][0]
    if not rm["supported"]:
        print("rtl unsupported", rm["reason"])
        sys.exit(0)
    try:
        print(check_design(clif_text, layout, rm["rtl"]))
    except Unsupported as e:
        print("unsupported:", e)
