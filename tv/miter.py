#!/usr/bin/env python3
"""SAT/SMT miters over objects the REAL synthesizer produced (dumped by tvdump).

  netlist_vs_rtl   gate netlist  ==  word-level RTL terms (one-step induction over
                   all inputs and all states; bounded unrolling from reset when a
                   counterexample has to be confirmed or state cannot be matched)
  netlist_vs_netlist  same design under two configurations (library, RAM
                   inference, restructure)

The solver (z3) decides each query for ALL input/state valuations; nothing is
sampled.  A model is turned into a stimulus and replayed natively.
"""
import json
import sys
import time

import z3

CELL = {
    "buf": lambda x: x[0],
    "not": lambda x: z3.Not(x[0]),
    "and2": lambda x: z3.And(x[0], x[1]),
    "or2": lambda x: z3.Or(x[0], x[1]),
    "nand2": lambda x: z3.Not(z3.And(x[0], x[1])),
    "nor2": lambda x: z3.Not(z3.Or(x[0], x[1])),
    "xor2": lambda x: z3.Xor(x[0], x[1]),
    "xnor2": lambda x: z3.Not(z3.Xor(x[0], x[1])),
    "and3": lambda x: z3.And(x[0], x[1], x[2]),
    "or3": lambda x: z3.Or(x[0], x[1], x[2]),
    "nand3": lambda x: z3.Not(z3.And(x[0], x[1], x[2])),
    "nor3": lambda x: z3.Not(z3.Or(x[0], x[1], x[2])),
    "ao21": lambda x: z3.Or(z3.And(x[0], x[1]), x[2]),
    "aoi21": lambda x: z3.Not(z3.Or(z3.And(x[0], x[1]), x[2])),
    "oa21": lambda x: z3.And(z3.Or(x[0], x[1]), x[2]),
    "oai21": lambda x: z3.Not(z3.And(z3.Or(x[0], x[1]), x[2])),
    "ao31": lambda x: z3.Or(z3.And(x[0], x[1], x[2]), x[3]),
    "aoi31": lambda x: z3.Not(z3.Or(z3.And(x[0], x[1], x[2]), x[3])),
    "ao22": lambda x: z3.Or(z3.And(x[0], x[1]), z3.And(x[2], x[3])),
    "aoi22": lambda x: z3.Not(z3.Or(z3.And(x[0], x[1]), z3.And(x[2], x[3]))),
    "oai22": lambda x: z3.Not(z3.And(z3.Or(x[0], x[1]), z3.Or(x[2], x[3]))),
    # inputs = [sel, d_when_sel_0, d_when_sel_1]
    "mux2": lambda x: z3.If(x[0], x[2], x[1]),
}
ARITY = {"buf": 1, "not": 1, "and2": 2, "or2": 2, "nand2": 2, "nor2": 2, "xor2": 2, "xnor2": 2, "and3": 3, "or3": 3,
         "nand3": 3, "nor3": 3, "ao21": 3, "aoi21": 3, "oa21": 3, "oai21": 3, "mux2": 3, "ao31": 4, "aoi31": 4,
         "ao22": 4, "aoi22": 4, "oai22": 4}


class Unsupported(Exception):
    pass


MAX_STATE_BITS = 4096


def bit(bvterm, i):
    return z3.Extract(i, i, bvterm) == z3.BitVecVal(1, 1)


class Netlist:
    """Boolean functions of every net of one dumped GateModule, given a
    valuation of its free nets (input port bits, FF Q bits, RAM contents)."""

    def __init__(self, nl, inputs, state, tag):
        """inputs: name -> z3 BitVec (port value); state: name -> z3 BitVec (flat register/array value)"""
        self.nl = nl
        self.inputs = inputs
        self.state = state
        self.tag = tag
        self.val = {}
        self.free = {}          # unmatched free nets
        self.unmatched = []
        nets = nl["nets"]
        # encoding preconditions (refuse, never guess)
        for ci, c in enumerate(nl["cells"]):
            if c["kind"] not in CELL or len(c["in"]) != ARITY[c["kind"]]:
                raise Unsupported(f"cell {ci}: kind/arity {c['kind']}/{len(c['in'])}")
            d = nets[c["out"]]["d"]
            if d["k"] != "cell" or d["i"] != ci:
                # the aig round trip can emit the same cell twice for one sink net; identical twins drive the same value
                o = nl["cells"][d["i"]] if d["k"] == "cell" and d["i"] < len(nl["cells"]) else None
                if not (o and o["kind"] == c["kind"] and o["in"] == c["in"] and o["out"] == c["out"]):
                    raise Unsupported(f"cell {ci}: output net {c['out']} not driven by it")
        self.port_bit = {}
        for p in nl["ports"]:
            if p["dir"] == "input":
                for i, n in enumerate(p["nets"]):
                    self.port_bit[n] = (p["name"], i, tuple(p["path"]))

    def net(self, n0):
        """iterative evaluation with cycle detection"""
        nets, cells = self.nl["nets"], self.nl["cells"]
        stack = [(n0, False)]
        onpath = set()
        while stack:
            n, expanded = stack.pop()
            if n in self.val:
                continue
            d = nets[n]["d"]
            k = d["k"]
            if k == "cell":
                c = cells[d["i"]]
                if not expanded:
                    if n in onpath:
                        raise Unsupported(f"combinational cycle through net {n}")
                    onpath.add(n)
                    stack.append((n, True))
                    for i in c["in"]:
                        if i not in self.val:
                            stack.append((i, False))
                    continue
                onpath.discard(n)
                self.val[n] = CELL[c["kind"]]([self.val[i] for i in c["in"]])
            elif k == "const":
                self.val[n] = z3.BoolVal(bool(d["v"]))
            elif k == "input":
                if n not in self.port_bit:
                    raise Unsupported(f"input-driven net {n} is not a port bit")
                name, i, path = self.port_bit[n]
                if len(path) != 1 or name not in self.inputs:
                    raise Unsupported(f"input port {'.'.join(path)} not in the RTL interface")
                self.val[n] = bit(self.inputs[name], i)
            elif k == "ffq":
                ff = self.nl["ffs"][d["i"]]
                o = ff["origin"]
                if o and o[0] in self.state and o[1] < self.state[o[0]].size():
                    self.val[n] = bit(self.state[o[0]], o[1])
                else:
                    v = z3.Bool(f"{self.tag}_ffq{d['i']}")
                    self.free[n] = v
                    self.unmatched.append(("ff", d["i"], o))
                    self.val[n] = v
            elif k == "ramread":
                ram = self.nl["rams"][d["ram"]]
                rp = ram["reads"][d["port"]]
                if rp["sync"]:
                    raise Unsupported("synchronous RAM read port")
                if ram["name"] not in self.state:
                    raise Unsupported(f"RAM {ram['name']} has no RTL state")
                if not expanded:
                    stack.append((n, True))
                    for a in rp["addr"]:
                        if a not in self.val:
                            stack.append((a, False))
                    continue
                self.val[n] = bit(self.ram_word(ram, rp["addr"]), d["bit"])
            elif k == "undriven":
                raise Unsupported(f"undriven net {n} in a cone")
            else:
                raise Unsupported(f"driver kind {k}")
        return self.val[n0]

    def vec(self, nets):
        """BitVec of LSB-first net list"""
        bits = [z3.If(self.net(n), z3.BitVecVal(1, 1), z3.BitVecVal(0, 1)) for n in nets]
        return z3.Concat(*reversed(bits)) if len(bits) > 1 else bits[0]

    def ram_word(self, ram, addr_nets):
        flat = self.state[ram["name"]]
        w = ram["width"]
        a = self.vec(addr_nets)
        tw = flat.size()
        ext = max(tw, a.size() + 1) + 8
        sh = z3.ZeroExt(ext - a.size(), a) * z3.BitVecVal(w, ext)
        return z3.Extract(w - 1, 0, z3.LShR(z3.ZeroExt(ext - tw, flat), sh))

    def ram_next(self, ram):
        """next flat contents after one clock edge: write ports applied in order"""
        flat = self.state[ram["name"]]
        w, tw = ram["width"], flat.size()
        if ram["depth"] * w != tw:
            raise Unsupported(f"RAM {ram['name']}: {ram['depth']}x{w} does not match the {tw}-bit RTL array")
        cur = flat
        for wp in ram["writes"]:
            a = self.vec(wp["addr"])
            data = self.vec(wp["data"])
            en = self.net(wp["enable"])
            mask = self.vec(wp["mask"]) if wp.get("mask") else z3.BitVecVal((1 << w) - 1, w)
            ext = max(tw, a.size() + 1) + 8
            sh = z3.ZeroExt(ext - a.size(), a) * z3.BitVecVal(w, ext)
            m = z3.ZeroExt(ext - w, mask) << sh
            dv = z3.ZeroExt(ext - w, data & mask) << sh
            new = z3.Extract(tw - 1, 0, (z3.ZeroExt(ext - tw, cur) & ~m) | dv)
            inrange = z3.ULT(z3.ZeroExt(ext - a.size(), a), z3.BitVecVal(ram["depth"], ext))
            cur = z3.If(z3.And(en, inrange), new, cur)
        return cur


def parse_rtl(rtl, suffix=""):
    """z3 terms of the RTL side. suffix distinguishes time frames."""
    decls = {}
    lines = []
    for i in rtl["inputs"]:
        lines.append(f"(declare-const {i['smt']} (_ BitVec {i['width']}))")
    for s in rtl["states"]:
        lines.append(f"(declare-const {s['smt']} (_ BitVec {s['width']}))")
    for (n, w, e) in rtl["defs"]:
        lines.append(f"(define-fun {n} () (_ BitVec {w}) {e})")
    outs = [(o["name"], o["width"], o["term"]) for o in rtl["outputs"]]
    nxt = [(s["name"], s["width"], s["next"]) for s in rtl["states"]]
    for k, (n, w, t) in enumerate(outs):
        lines.append(f"(define-fun out__{k} () (_ BitVec {w}) {t})")
    for k, (n, w, t) in enumerate(nxt):
        lines.append(f"(define-fun nxt__{k} () (_ BitVec {w}) {t})")
    for k, a in enumerate(rtl["assumptions"]):
        lines.append(f"(define-fun asm__{k} () Bool {a})")
    # obtain each defined term as a z3 expression: assert (= probe term)
    probes = []
    for k, (n, w, t) in enumerate(outs):
        lines.append(f"(declare-const probe_out__{k} (_ BitVec {w}))")
        probes.append(f"(= probe_out__{k} out__{k})")
    for k, (n, w, t) in enumerate(nxt):
        lines.append(f"(declare-const probe_nxt__{k} (_ BitVec {w}))")
        probes.append(f"(= probe_nxt__{k} nxt__{k})")
    for k, a in enumerate(rtl["assumptions"]):
        lines.append(f"(declare-const probe_asm__{k} Bool)")
        probes.append(f"(= probe_asm__{k} asm__{k})")
    for p in probes:
        lines.append(f"(assert {p})")
    txt = "\n".join(lines)
    asserts = z3.parse_smt2_string(txt)
    res = {"out": {}, "nxt": {}, "asm": []}
    idx = 0
    for k, (n, w, t) in enumerate(outs):
        res["out"][n] = asserts[idx].arg(1)
        idx += 1
    for k, (n, w, t) in enumerate(nxt):
        res["nxt"][n] = asserts[idx].arg(1)
        idx += 1
    for k, a in enumerate(rtl["assumptions"]):
        res["asm"].append(asserts[idx].arg(1))
        idx += 1
    res["in"] = {i["name"]: z3.BitVec(i["smt"], i["width"]) for i in rtl["inputs"]}
    res["st"] = {s["name"]: z3.BitVec(s["smt"], s["width"]) for s in rtl["states"]}
    return res


def rename(expr, mapping):
    return z3.substitute(expr, *mapping) if mapping else expr


def ff_next(N, ff):
    """next value of one netlist flip-flop over a clock edge"""
    d = N.net(ff["d"])
    r = ff["reset"]
    if r is None:
        return d
    rn = N.net(r["net"])
    active = rn if r["polarity"] == "high" else z3.Not(rn)
    return z3.If(active, z3.BoolVal(bool(ff["reset_value"])), d)


def check_structure(nl, rtl):
    """clock/reset wiring: every FF/RAM clock is the RTL process's clock port, edges agree"""
    port_of = {}
    for p in nl["ports"]:
        if p["dir"] == "input" and len(p["nets"]) == 1:
            port_of[p["nets"][0]] = p["name"]
    regs = {}
    for f in rtl["ffs"]:
        for r in f["regs"]:
            regs[r] = f
    notes = []
    for i, ff in enumerate(nl["ffs"]):
        o = ff["origin"]
        if not o or o[0] not in regs:
            continue
        meta = regs[o[0]]
        if port_of.get(ff["clock"]) != meta["clock"]:
            raise Unsupported(f"ff{i}: clock net is not the process clock port (gated/derived clock)")
        if (ff["edge"] == "negedge") != bool(meta["negedge"]):
            notes.append(f"ff{i} ({o[0]}[{o[1]}]): clock edge {ff['edge']} but RTL process negedge={meta['negedge']}")
        if ff["reset"] is not None and meta["reset"] is not None:
            if port_of.get(ff["reset"]["net"]) != meta["reset"]["port"]:
                raise Unsupported(f"ff{i}: reset net is not the process reset port")
    for ram in nl["rams"]:
        if ram["name"] in regs:
            meta = regs[ram["name"]]
            if port_of.get(ram["clock"]) != meta["clock"]:
                raise Unsupported(f"ram {ram['name']}: clock is not the process clock port")
            if (ram["edge"] == "negedge") != bool(meta["negedge"]):
                notes.append(f"ram {ram['name']}: clock edge {ram['edge']} but RTL process negedge={meta['negedge']}")
    return notes


def netlist_vs_rtl(nl, rtl, timeout_ms=60000, bmc_k=4):
    """returns dict(verdict, ...). verdict in: equal_inductive, equal_bounded, differs, inconclusive"""
    t0 = time.time()
    if len({f["clock"] for f in rtl["ffs"]}) > 1:
        raise Unsupported("more than one clock")
    if sum(s["width"] for s in rtl["states"]) > MAX_STATE_BITS:
        raise Unsupported(f"more than {MAX_STATE_BITS} state bits")
    R = parse_rtl(rtl)
    queries = 0
    notes = check_structure(nl, rtl)
    if notes:
        # an edge mismatch is a definite, input-independent difference in meaning
        return dict(verdict="differs", kind="structure", detail=notes, queries=0, secs=time.time() - t0)
    N = Netlist(nl, R["in"], R["st"], "n")
    diffs = []
    # outputs
    for p in nl["ports"]:
        if p["dir"] != "output":
            continue
        if len(p["path"]) != 1 or p["name"] not in R["out"]:
            raise Unsupported(f"output port {'.'.join(p['path'])} not in the RTL interface")
        r = R["out"][p["name"]]
        if r.size() != len(p["nets"]):
            raise Unsupported(f"output {p['name']}: {len(p['nets'])} nets vs {r.size()} RTL bits")
        diffs.append((f"out {p['name']}", N.vec(p["nets"]) != r))
    # next state
    covered = {}
    for i, ff in enumerate(nl["ffs"]):
        o = ff["origin"]
        if o and o[0] in R["nxt"] and o[1] < R["nxt"][o[0]].size():
            covered.setdefault(o[0], set()).add(o[1])
            diffs.append((f"next {o[0]}[{o[1]}]", ff_next(N, ff) != bit(R["nxt"][o[0]], o[1])))
    for ram in nl["rams"]:
        if ram["name"] in R["nxt"]:
            covered[ram["name"]] = set(range(R["nxt"][ram["name"]].size()))
            diffs.append((f"next ram {ram['name']}", N.ram_next(ram) != R["nxt"][ram["name"]]))
    missing = []
    for s in rtl["states"]:
        have = covered.get(s["name"], set())
        for b in range(s["width"]):
            if b not in have:
                missing.append((s["name"], b))
    # registers the netlist dropped must be provably constant-from-reset or unobservable:
    # handled by the bounded check below; induction is attempted only with a full match
    s = z3.Solver()
    s.set("timeout", timeout_ms)
    for a in R["asm"]:
        s.add(a)
    res = dict(queries=0, unmatched_netlist=N.unmatched, unmatched_rtl_bits=len(missing), notes=notes)
    if not missing and not N.unmatched:
        s.push()
        s.add(z3.Or(*[d for _, d in diffs]))
        r = s.check()
        res["queries"] += 1
        s_model = s.model() if r == z3.sat else None
        s.pop()
        if r == z3.unknown:
            # the disjunction over all outputs timed out: decide the obligations one by one, each with a
            # bit-blasting retry
            r = z3.unsat
            for _, d in diffs:
                s.push()
                s.add(d)
                r1 = s.check()
                res["queries"] += 1
                if r1 == z3.unknown:
                    t = z3.Then("simplify", "solve-eqs", "bit-blast", "sat").solver()
                    t.set("timeout", timeout_ms)
                    for a in R["asm"]:
                        t.add(a)
                    t.add(d)
                    r1 = t.check()
                    res["queries"] += 1
                    if r1 == z3.sat:
                        s_model = t.model()
                elif r1 == z3.sat:
                    s_model = s.model()
                s.pop()
                if r1 != z3.unsat:
                    r = r1
                    break
        if r == z3.unsat:
            res.update(verdict="equal_inductive", obligations=len(diffs), secs=time.time() - t0)
            return res
        if r == z3.unknown:
            res.update(verdict="inconclusive", why="solver timeout on the inductive step", secs=time.time() - t0)
            return res
        res["inductive_cex"] = [n for n, d in diffs if z3.is_true(s_model.eval(d, model_completion=True))][:5]
    # bounded unrolling from the simulator's initial state (all zero), one reset cycle, k free cycles
    b = bounded(nl, rtl, bmc_k, timeout_ms)
    res["queries"] += b.pop("queries")
    res.update(b)
    res["secs"] = time.time() - t0
    return res


def frame_inputs(rtl, k):
    return {i["name"]: z3.BitVec(f"{i['smt']}@{k}", i["width"]) for i in rtl["inputs"]}


def bounded(nl, rtl, k, timeout_ms):
    """both sides from the all-zero state; cycle 0 has reset asserted (if any), then k free cycles.
    Outputs are compared in every cycle (after the reset cycle)."""
    if len({f["clock"] for f in rtl["ffs"]}) > 1:
        raise Unsupported("more than one clock")
    reset_ports = {}
    for f in rtl["ffs"]:
        if f["reset"]:
            reset_ports[f["reset"]["port"]] = f["reset"]["active_low"]
    clocks = {i["name"] for i in rtl["inputs"] if i["clock"]}
    # RTL state and netlist state evolve separately
    rs = {s["name"]: z3.BitVecVal(0, s["width"]) for s in rtl["states"]}
    ffq = {i: z3.BoolVal(False) for i in range(len(nl["ffs"]))}
    ram = {r["name"]: z3.BitVecVal(0, r["depth"] * r["width"]) for r in nl["rams"]}
    solver = z3.Solver()
    solver.set("timeout", timeout_ms)
    base = parse_rtl(rtl)
    frames = []
    diffs = []
    for t in range(k + 1):
        ins = frame_inputs(rtl, t)
        for name, low in reset_ports.items():
            asserted = (t == 0)
            level = (0 if low else 1) if asserted else (1 if low else 0)
            solver.add(ins[name] == level)
        if t == 0:
            # the property quantifies over stimulus applied AFTER reset: during the reset cycle the
            # other inputs sit at the simulator's initial value 0
            for name, v in ins.items():
                if name not in reset_ports and name not in clocks:
                    solver.add(v == 0)
        # RTL frame
        sub = [(base["in"][n], ins[n]) for n in ins] + [(base["st"][n], rs[n]) for n in rs]
        r_out = {n: rename(e, sub) for n, e in base["out"].items()}
        r_nxt = {n: rename(e, sub) for n, e in base["nxt"].items()}
        for a in base["asm"]:
            solver.add(rename(a, sub))
        # netlist frame: Q nets and RAM contents are this frame's state
        N = Netlist(nl, ins, {}, f"n{t}")
        for i, ff in enumerate(nl["ffs"]):
            N.val[ff["q"]] = ffq[i]
        N.state = dict(ram)
        outs = {}
        for p in nl["ports"]:
            if p["dir"] == "output":
                outs[p["name"]] = N.vec(p["nets"])
        if t > 0:
            for n in outs:
                diffs.append((t, n, outs[n] != r_out[n]))
        frames.append(dict(ins=ins, r_out=r_out, n_out=outs))
        ffq = {i: z3.simplify(ff_next(N, ff)) for i, ff in enumerate(nl["ffs"])}
        ram = {r["name"]: N.ram_next(r) for r in nl["rams"]}
        rs = r_nxt
    solver.add(z3.Or(*[d for _, _, d in diffs]) if diffs else z3.BoolVal(False))
    r = solver.check()
    if r == z3.unsat:
        return dict(verdict="equal_bounded", cycles=k, queries=1)
    if r == z3.unknown:
        return dict(verdict="inconclusive", why="solver timeout on the bounded unrolling", queries=1)
    m = solver.model()
    stim = []
    for t, fr in enumerate(frames):
        stim.append({n: format(m.eval(v, model_completion=True).as_long(), "x") for n, v in fr["ins"].items()
                     if n not in clocks})
    bad = [(t, n) for (t, n, d) in diffs if z3.is_true(m.eval(d, model_completion=True))]
    t, n = bad[0]
    return dict(verdict="differs", kind="trace", cycle=t, port=n, clock=(sorted(clocks)[0] if clocks else None),
                rtl_value=m.eval(frames[t]["r_out"][n], model_completion=True).as_long(),
                netlist_value=m.eval(frames[t]["n_out"][n], model_completion=True).as_long(),
                stimulus=stim, queries=1)


def netlist_vs_netlist(a, b, timeout_ms=60000):
    """same design, two configurations: one-step induction with FF/RAM state matched by origin"""
    t0 = time.time()
    ins = {}
    for p in a["ports"]:
        if p["dir"] == "input":
            if len(p["path"]) != 1:
                raise Unsupported("hierarchical port path")
            ins[p["name"]] = z3.BitVec(f"in_{p['name']}", len(p["nets"]))
    # shared state variables by origin name: width = max bit index + 1 (FF) or depth*width (RAM)
    widths = {}
    for nl in (a, b):
        for ff in nl["ffs"]:
            o = ff["origin"]
            if o:
                widths[o[0]] = max(widths.get(o[0], 0), o[1] + 1)
        for r in nl["rams"]:
            widths[r["name"]] = max(widths.get(r["name"], 0), r["depth"] * r["width"])
    st = {n: z3.BitVec(f"st_{n}", w) for n, w in widths.items()}
    A = Netlist(a, ins, st, "a")
    B = Netlist(b, ins, st, "b")
    diffs = []
    pa = {tuple(p["path"]): p for p in a["ports"] if p["dir"] == "output"}
    pb = {tuple(p["path"]): p for p in b["ports"] if p["dir"] == "output"}
    if set(pa) != set(pb):
        return dict(verdict="differs", kind="structure", detail="output port sets differ", queries=0)
    for k in pa:
        if len(pa[k]["nets"]) != len(pb[k]["nets"]):
            return dict(verdict="differs", kind="structure", detail=f"port {k} width differs", queries=0)
        diffs.append((f"out {'.'.join(k)}", A.vec(pa[k]["nets"]) != B.vec(pb[k]["nets"])))

    def next_map(N, nl):
        m = {}
        for ff in nl["ffs"]:
            o = ff["origin"]
            if o:
                m[(o[0], o[1])] = ff_next(N, ff)
        for r in nl["rams"]:
            nx = N.ram_next(r)
            for i in range(r["depth"] * r["width"]):
                m[(r["name"], i)] = bit(nx, i)
        return m
    na, nb = next_map(A, a), next_map(B, b)
    only = set(na) ^ set(nb)
    for k in set(na) & set(nb):
        diffs.append((f"next {k[0]}[{k[1]}]", na[k] != nb[k]))
    if A.unmatched or B.unmatched or only:
        return dict(verdict="inconclusive", why=f"state not matched by origin ({len(only)} bits on one side only, "
                    f"{len(A.unmatched) + len(B.unmatched)} anonymous flip-flops)", queries=0, secs=time.time() - t0)
    s = z3.Solver()
    s.set("timeout", timeout_ms)
    s.add(z3.Or(*[d for _, d in diffs]))
    r = s.check()
    if r == z3.unsat:
        return dict(verdict="equal_inductive", obligations=len(diffs), queries=1, secs=time.time() - t0)
    if r == z3.unknown:
        return dict(verdict="inconclusive", why="solver timeout", queries=1, secs=time.time() - t0)
    m = s.model()
    bad = [n for n, d in diffs if z3.is_true(m.eval(d, model_completion=True))][:5]
    return dict(verdict="differs_from_some_state", where=bad, queries=1, secs=time.time() - t0,
                inputs={n: m.eval(v, model_completion=True).as_long() for n, v in ins.items()},
                state={n: m.eval(v, model_completion=True).as_long() for n, v in st.items()})


if __name__ == "__main__":
    nlj = json.load(open(sys.argv[1]))
    rtj = json.load(open(sys.argv[2]))
    for mod in nlj["modules"]:
        rm = next((m for m in rtj["modules"] if m["top"] == mod["top"]), None)
        print("==", mod["top"], "rtl supported:", rm and rm["supported"], (rm or {}).get("reason"))
        cfgs = [c for c in mod["configs"] if c["ok"]]
        if rm and rm["supported"] and cfgs:
            try:
                print("  rtl-vs-netlist:", netlist_vs_rtl(cfgs[0]["netlist"], rm["rtl"]))
            except Unsupported as e:
                print("  unsupported:", e)
        for c in cfgs[1:]:
            try:
                r = netlist_vs_netlist(cfgs[0]["netlist"], c["netlist"])
                print("  cfg", c["cfg"], r["verdict"], r.get("why", ""))
            except Unsupported as e:
                print("  cfg", c["cfg"], "unsupported:", e)
