//! Native replay of a miter counterexample.
//!
//! The stimulus (one map of input-port values per cycle; cycle 0 has reset
//! asserted) is applied to
//!   (a) the repository's interpreter (`Simulator`, use_jit = false) on the RTL,
//!   (b) the gate netlist the repository's synthesizer produces right now,
//!       evaluated by the small gate evaluator below,
//! and the outputs are compared cycle by cycle.  Only a difference seen here is
//! reported as a violation.

use serde_json::{Value as J, json};
use std::collections::HashMap;
use veryl_analyzer::ir as air;
use veryl_analyzer::value::Value;
use veryl_parser::resource_table;
use veryl_simulator::Simulator;
use veryl_simulator::ir::{Config, build_ir};
use veryl_synthesizer::ir::{CellKind, GateModule, NetDriver};
use veryl_synthesizer::{PortDir, RamConfig, ResetPolarity, build_gate_ir_with_library, library_for};

fn cell(kind: CellKind, x: &[bool]) -> bool {
    use CellKind::*;
    match kind {
        Buf => x[0],
        Not => !x[0],
        And2 => x[0] & x[1],
        Or2 => x[0] | x[1],
        Nand2 => !(x[0] & x[1]),
        Nor2 => !(x[0] | x[1]),
        Xor2 => x[0] ^ x[1],
        Xnor2 => !(x[0] ^ x[1]),
        And3 => x[0] & x[1] & x[2],
        Or3 => x[0] | x[1] | x[2],
        Nand3 => !(x[0] & x[1] & x[2]),
        Nor3 => !(x[0] | x[1] | x[2]),
        Ao21 => (x[0] & x[1]) | x[2],
        Aoi21 => !((x[0] & x[1]) | x[2]),
        Oa21 => (x[0] | x[1]) & x[2],
        Oai21 => !((x[0] | x[1]) & x[2]),
        Ao31 => (x[0] & x[1] & x[2]) | x[3],
        Aoi31 => !((x[0] & x[1] & x[2]) | x[3]),
        Ao22 => (x[0] & x[1]) | (x[2] & x[3]),
        Aoi22 => !((x[0] & x[1]) | (x[2] & x[3])),
        Oai22 => !((x[0] | x[1]) & (x[2] | x[3])),
        Mux2 => {
            if x[0] {
                x[2]
            } else {
                x[1]
            }
        }
    }
}

struct Gates<'a> {
    m: &'a GateModule,
    ffq: Vec<bool>,
    ram: Vec<Vec<bool>>, // flat contents per RAM block
}

impl<'a> Gates<'a> {
    fn new(m: &'a GateModule) -> Self {
        Gates {
            m,
            ffq: vec![false; m.ffs.len()],
            ram: m.ram_blocks.iter().map(|r| vec![false; r.depth * r.width]).collect(),
        }
    }
    fn eval(&self, n: u32, inp: &HashMap<u32, bool>, memo: &mut HashMap<u32, bool>, depth: usize) -> Result<bool, String> {
        if let Some(v) = memo.get(&n) {
            return Ok(*v);
        }
        if depth > 200_000 {
            return Err("combinational cycle".into());
        }
        let v = match &self.m.nets[n as usize].driver {
            NetDriver::Const(b) => *b,
            NetDriver::PortInput => *inp.get(&n).ok_or("unset input net")?,
            NetDriver::Cell(i) => {
                let c = &self.m.cells[*i];
                let mut xs = Vec::with_capacity(4);
                for &i in &c.inputs {
                    xs.push(self.eval(i, inp, memo, depth + 1)?);
                }
                cell(c.kind, &xs)
            }
            NetDriver::FfQ(i) => self.ffq[*i],
            NetDriver::RamRead(r, p, b) => {
                let ram = &self.m.ram_blocks[*r];
                let rp = &ram.read_ports[*p];
                if rp.sync {
                    return Err("synchronous RAM read".into());
                }
                let mut a = 0usize;
                for (k, &n) in rp.addr.iter().enumerate() {
                    if self.eval(n, inp, memo, depth + 1)? {
                        a |= 1 << k;
                    }
                }
                if a < ram.depth { self.ram[*r][a * ram.width + *b] } else { false }
            }
            NetDriver::Undriven => return Err(format!("undriven net {n}")),
        };
        memo.insert(n, v);
        Ok(v)
    }
    fn edge(&mut self, inp: &HashMap<u32, bool>, memo: &mut HashMap<u32, bool>) -> Result<(), String> {
        let mut nq = self.ffq.clone();
        for (i, ff) in self.m.ffs.iter().enumerate() {
            let d = self.eval(ff.d, inp, memo, 0)?;
            nq[i] = match &ff.reset {
                Some(r) => {
                    let rn = self.eval(r.net, inp, memo, 0)?;
                    let active = match r.polarity {
                        ResetPolarity::ActiveHigh => rn,
                        ResetPolarity::ActiveLow => !rn,
                    };
                    if active { ff.reset_value } else { d }
                }
                None => d,
            };
        }
        let mut nram = self.ram.clone();
        for (ri, ram) in self.m.ram_blocks.iter().enumerate() {
            for wp in &ram.write_ports {
                if !self.eval(wp.enable, inp, memo, 0)? {
                    continue;
                }
                let mut a = 0usize;
                for (k, &n) in wp.addr.iter().enumerate() {
                    if self.eval(n, inp, memo, 0)? {
                        a |= 1 << k;
                    }
                }
                if a >= ram.depth {
                    continue;
                }
                for b in 0..ram.width {
                    let m = match &wp.mask {
                        Some(mk) => self.eval(mk[b], inp, memo, 0)?,
                        None => true,
                    };
                    if m {
                        nram[ri][a * ram.width + b] = self.eval(wp.data[b], inp, memo, 0)?;
                    }
                }
            }
        }
        self.ffq = nq;
        self.ram = nram;
        Ok(())
    }
}

pub fn replay(ir: &air::Ir, top: &str, stim: &J) -> String {
    let r = replay_inner(ir, top, stim);
    match r {
        Ok(j) => j.to_string(),
        Err(e) => json!({"error": e}).to_string(),
    }
}

fn replay_inner(ir: &air::Ir, top: &str, stim: &J) -> Result<J, String> {
    let top_id = resource_table::insert_str(top);
    let frames = stim["stimulus"].as_array().ok_or("stimulus")?;
    let clock = stim["clock"].as_str();
    let lib = match stim["cfg"]["library"].as_str().unwrap_or("sky130") {
        "asap7" => veryl_synthesizer::Library::Asap7,
        "gf180mcu" => veryl_synthesizer::Library::Gf180mcu,
        "ihp-sg13g2" => veryl_synthesizer::Library::IhpSg13g2,
        _ => veryl_synthesizer::Library::Sky130,
    };
    let d = RamConfig::default();
    let rc = match stim["cfg"]["ram"].as_str().unwrap_or("ram-default") {
        "ram-off" => RamConfig { min_bits: usize::MAX, ..d },
        "ram-min1" => RamConfig { min_bits: 1, ..d },
        _ => d,
    };
    unsafe {
        if stim["cfg"]["restructure"].as_bool().unwrap_or(true) {
            std::env::remove_var("VERYL_SYNTH_NO_RESTRUCTURE");
        } else {
            std::env::set_var("VERYL_SYNTH_NO_RESTRUCTURE", "1");
        }
    }
    let gate = build_gate_ir_with_library(ir, top_id, rc, library_for(lib)).map_err(|e| format!("synth: {e}"))?;
    let g = &gate.module;

    // (a) the repository's interpreter
    let config = Config { use_jit: stim["jit"].as_bool().unwrap_or(false), ..Default::default() };
    let sim_ir = build_ir(ir, top_id, &config).map_err(|e| format!("simulator ir: {e}"))?;
    let mut sim = Simulator::new(sim_ir, None);
    let clk_ev = match clock {
        Some(c) => Some(sim.get_clock(c).ok_or("clock port")?),
        None => None,
    };

    // (b) the netlist
    let mut gates = Gates::new(g);
    let in_ports: Vec<_> = g.ports.iter().filter(|p| p.dir == PortDir::Input).collect();
    let out_ports: Vec<_> = g.ports.iter().filter(|p| p.dir == PortDir::Output).collect();

    let mut trace = Vec::new();
    let mut first_diff = J::Null;
    for (t, fr) in frames.iter().enumerate() {
        let mut inp: HashMap<u32, bool> = HashMap::new();
        for p in &in_ports {
            let name = p.name.to_string();
            let v = fr.get(&name).and_then(|x| x.as_str()).map(|s| u128::from_str_radix(s, 16).unwrap_or(0)).unwrap_or(0);
            for (i, &n) in p.nets.iter().enumerate() {
                inp.insert(n, i < 128 && (v >> i) & 1 == 1);
            }
            if Some(name.as_str()) != clock {
                sim.set(&name, Value::from_u128(v, 0, p.nets.len(), false));
            }
        }
        let mut memo = HashMap::new();
        let mut row = serde_json::Map::new();
        for p in &out_ports {
            let name = p.name.to_string();
            let mut nv: u128 = 0;
            for (i, &n) in p.nets.iter().enumerate() {
                if gates.eval(n, &inp, &mut memo, 0)? && i < 128 {
                    nv |= 1 << i;
                }
            }
            let sv = sim.get(&name).map(|v| v.payload_u128()).unwrap_or(0);
            let m = if p.nets.len() >= 128 { u128::MAX } else { (1u128 << p.nets.len()) - 1 };
            row.insert(name.clone(), json!({"rtl": format!("{:x}", sv & m), "netlist": format!("{:x}", nv & m)}));
            if t > 0 && (sv & m) != (nv & m) && first_diff.is_null() {
                first_diff = json!({"cycle": t, "port": name, "rtl": format!("{:x}", sv & m), "netlist": format!("{:x}", nv & m)});
            }
        }
        trace.push(J::Object(row));
        gates.edge(&inp, &mut memo)?;
        if let Some(ev) = &clk_ev {
            sim.step(ev);
        }
    }
    Ok(json!({"reproduced": !first_diff.is_null(), "first_diff": first_diff, "trace": trace}))
}
