//! (placeholder, filled in with the interpreter replay)
use serde_json::Value;
use veryl_analyzer::ir as air;
pub fn replay(_ir: &air::Ir, _top: &str, _stim: &Value) -> String {
    String::from("{}")
}
