//! JSON dump of `veryl_synthesizer::GateModule` under every configuration.

use serde_json::{Value, json};
use veryl_analyzer::ir as air;
use veryl_synthesizer::ir::{GateModule, NetDriver};
use veryl_synthesizer::{
    ClockEdge, Library, PortDir, RamConfig, ResetPolarity, build_gate_ir_with_library, library_for,
};

pub fn module_json(m: &GateModule) -> Value {
    let origin = |o: &Option<(veryl_parser::resource_table::StrId, usize)>| match o {
        Some((n, b)) => json!([n.to_string(), b]),
        None => Value::Null,
    };
    let ports: Vec<Value> = m
        .ports
        .iter()
        .map(|p| {
            json!({
                "name": p.name.to_string(),
                "path": p.path.iter().map(|s| s.to_string()).collect::<Vec<_>>(),
                "dir": match p.dir { PortDir::Input => "input", PortDir::Output => "output", PortDir::Inout => "inout" },
                "nets": p.nets,
            })
        })
        .collect();
    let nets: Vec<Value> = m
        .nets
        .iter()
        .map(|n| {
            let d = match &n.driver {
                NetDriver::Const(b) => json!({"k": "const", "v": b}),
                NetDriver::PortInput => json!({"k": "input"}),
                NetDriver::Cell(i) => json!({"k": "cell", "i": i}),
                NetDriver::FfQ(i) => json!({"k": "ffq", "i": i}),
                NetDriver::RamRead(r, p, b) => json!({"k": "ramread", "ram": r, "port": p, "bit": b}),
                NetDriver::Undriven => json!({"k": "undriven"}),
            };
            json!({"d": d, "o": origin(&n.origin)})
        })
        .collect();
    let cells: Vec<Value> = m
        .cells
        .iter()
        .map(|c| json!({"kind": c.kind.symbol(), "in": c.inputs, "out": c.output}))
        .collect();
    let edge = |e: &ClockEdge| match e {
        ClockEdge::Posedge => "posedge",
        ClockEdge::Negedge => "negedge",
    };
    let ffs: Vec<Value> = m
        .ffs
        .iter()
        .map(|f| {
            let reset = match &f.reset {
                Some(r) => json!({
                    "net": r.net,
                    "polarity": match r.polarity { ResetPolarity::ActiveHigh => "high", ResetPolarity::ActiveLow => "low" },
                    "sync": r.sync,
                }),
                None => Value::Null,
            };
            json!({
                "clock": f.clock, "edge": edge(&f.clock_edge), "reset": reset,
                "d": f.d, "q": f.q, "reset_value": f.reset_value,
                // the Q net carries the hierarchical name (`u.r`) after flattening; the FF record keeps the child's own
                "origin": origin(&m.nets.get(f.q as usize).and_then(|n| n.origin).or(f.origin)),
            })
        })
        .collect();
    let rams: Vec<Value> = m
        .ram_blocks
        .iter()
        .map(|r| {
            json!({
                "name": r.name.to_string(), "depth": r.depth, "width": r.width,
                "clock": r.clock, "edge": edge(&r.clock_edge),
                "reads": r.read_ports.iter().map(|p| json!({"addr": p.addr, "data": p.data, "sync": p.sync})).collect::<Vec<_>>(),
                "writes": r.write_ports.iter().map(|p| json!({
                    "addr": p.addr, "data": p.data, "enable": p.enable, "mask": p.mask,
                })).collect::<Vec<_>>(),
            })
        })
        .collect();
    json!({
        "name": m.name.map(|n| n.to_string()),
        "ports": ports, "nets": nets, "cells": cells, "ffs": ffs, "rams": rams,
    })
}

pub fn libraries() -> Vec<(&'static str, Library)> {
    vec![
        ("sky130", Library::Sky130),
        ("asap7", Library::Asap7),
        ("gf180mcu", Library::Gf180mcu),
        ("ihp-sg13g2", Library::IhpSg13g2),
    ]
}

pub fn ram_configs() -> Vec<(&'static str, RamConfig)> {
    let d = RamConfig::default();
    vec![
        ("ram-default", d),
        ("ram-off", RamConfig { min_bits: usize::MAX, ..d }),
        ("ram-min1", RamConfig { min_bits: 1, ..d }),
    ]
}

pub fn dump_all(ir: &air::Ir, only: Option<&str>) -> Value {
    dump_some(ir, only, false)
}

/// `few`: default library with every RamConfig and restructure setting, plus the
/// other libraries at their default RamConfig (quick tier); otherwise the full
/// library x RamConfig x restructure product.
pub fn dump_some(ir: &air::Ir, only: Option<&str>, few: bool) -> Value {
    let mut modules = Vec::new();
    for c in &ir.components {
        let air::Component::Module(m) = c else { continue };
        let name = m.name.to_string();
        if let Some(o) = only
            && o != name
        {
            continue;
        }
        let mut cfgs = Vec::new();
        for (ln, lib) in libraries() {
            for (rn, rc) in ram_configs() {
                for restructure in [true, false] {
                    if few && ln != "sky130" && (rn != "ram-default" || !restructure) {
                        continue;
                    }
                    // the synthesizer reads this per call (env::var_os in conv::finalize)
                    unsafe {
                        if restructure {
                            std::env::remove_var("VERYL_SYNTH_NO_RESTRUCTURE");
                        } else {
                            std::env::set_var("VERYL_SYNTH_NO_RESTRUCTURE", "1");
                        }
                    }
                    let t = std::time::Instant::now();
                    let r = std::panic::catch_unwind(std::panic::AssertUnwindSafe(|| {
                        build_gate_ir_with_library(ir, m.name, rc, library_for(lib))
                    }));
                    let cfg = json!({"library": ln, "ram": rn, "restructure": restructure});
                    let entry = match r {
                        Ok(Ok(g)) => json!({"cfg": cfg, "ok": true, "secs": t.elapsed().as_secs_f64(),
                                            "netlist": module_json(&g.module)}),
                        Ok(Err(e)) => json!({"cfg": cfg, "ok": false, "error": format!("{e}")}),
                        Err(_) => json!({"cfg": cfg, "ok": false, "error": "panic in synthesizer"}),
                    };
                    cfgs.push(entry);
                }
            }
        }
        unsafe { std::env::remove_var("VERYL_SYNTH_NO_RESTRUCTURE") };
        modules.push(json!({"top": name, "configs": cfgs}));
    }
    json!({"modules": modules})
}
