//! Word-level SMT-LIB terms for the analyzer IR of one module: a second,
//! independent statement of the RTL semantics (2-state) that the gate netlist
//! is compared against.  Deliberately a SUBSET: anything outside it makes the
//! module "unsupported" (reported, never guessed).
//!
//! Supported: ports/variables that are packed vectors or 1-dimensional arrays,
//! params/consts, always_comb / assign / always_ff (if_reset, if, case),
//! unary/binary/ternary/concatenation expressions, constant and dynamic
//! index / bit select (in-range assumed, recorded as an assumption), struct
//! member reads/writes through part_select.
//! Not supported: functions, system functions, instances inside generate blocks, struct/array
//! literals, `as` to/from floats, `**` with a non-constant operand, variables
//! written by more than one process, 4-state literals.

use serde_json::{Value as J, json};
use std::collections::{HashMap, HashSet};
use veryl_analyzer::ir as air;
use veryl_analyzer::ir::{Declaration, Expression, Factor, Op, Statement, VarId, VarKind};
use veryl_analyzer::value::Value;

type R<T> = Result<T, String>;

#[derive(Clone, Debug)]
struct T {
    s: String, // SMT term of sort (_ BitVec w); w >= 1
    w: usize,
}

#[derive(Clone, Debug)]
struct V {
    t: T,
    signed: bool,
}

struct VarInfo {
    name: String,   // first path segment (what the synthesizer records as FF/net origin)
    path: String,   // full dotted path
    kind: VarKind,
    sw: usize,      // scalar (element) width
    elems: usize,
    dims: usize,
    signed: bool,
    is_reset: bool,
    reset_active_low: bool,
    reset_sync: bool,
    is_clock: bool,
    clock_negedge: bool,
}

#[derive(Clone, Copy, PartialEq, Eq)]
enum Driver {
    None,
    Comb(usize),
    Ff(usize),
    /// several comb processes, each driving its own bits (the analyzer rejects overlapping drivers)
    MultiComb,
    /// output connection of the module instance at this declaration index
    Inst(usize),
    Multi,
}

type Env = HashMap<VarId, T>;

pub struct Builder<'a> {
    m: &'a air::Module,
    ctx: veryl_analyzer::Context,
    vars: HashMap<VarId, VarInfo>,
    driver: HashMap<VarId, Driver>,
    defs: Vec<(String, usize, String)>,
    assumptions: Vec<String>,
    comb_done: HashMap<usize, Env>,
    comb_writers: HashMap<VarId, Vec<usize>>,
    comb_busy: HashSet<usize>,
    n: usize,
    /// hierarchical prefix of this module instance ("" for the top, "u." for instance u, "u.v." ...)
    prefix: String,
    /// terms the parent connected to this instance's input ports (None for the top module)
    in_terms: Option<HashMap<VarId, ChildIn>>,
    inst_done: HashMap<usize, Env>,
    inst_busy: HashSet<usize>,
    child_states: Vec<J>,
    child_ffs: Vec<J>,
    depth: usize,
}

#[derive(Clone)]
struct ChildIn {
    t: T,
    /// name of the top-level input port when the connection is exactly that port
    top_port: Option<String>,
}

struct Built {
    inputs: Vec<J>,
    outputs: Vec<(VarId, J)>,
    out_terms: HashMap<VarId, T>,
    states: Vec<J>,
    ffs: Vec<J>,
    defs: Vec<(String, usize, String)>,
    assumptions: Vec<String>,
    n: usize,
}

fn bv(v: u128, w: usize) -> String {
    if w <= 128 {
        let m = if w == 128 { u128::MAX } else { (1u128 << w) - 1 };
        format!("(_ bv{} {})", v & m, w)
    } else {
        format!("((_ zero_extend {}) (_ bv{} 128))", w - 128, v)
    }
}

impl<'a> Builder<'a> {
    fn def(&mut self, w: usize, s: String) -> T {
        assert!(w >= 1);
        if s.len() < 40 {
            return T { s, w };
        }
        self.n += 1;
        let name = format!("t{}", self.n);
        self.defs.push((name.clone(), w, s));
        T { s: name, w }
    }
    fn lit(&self, v: u128, w: usize) -> T {
        T { s: bv(v, w), w }
    }
    fn zeros(&self, w: usize) -> T {
        T { s: bv(0, w), w }
    }
    fn extract(&mut self, t: &T, hi: usize, lo: usize) -> T {
        if lo == 0 && hi + 1 == t.w {
            return t.clone();
        }
        self.def(hi - lo + 1, format!("((_ extract {} {}) {})", hi, lo, t.s))
    }
    fn resize(&mut self, t: &T, w: usize, signed: bool) -> T {
        if w == t.w {
            t.clone()
        } else if w < t.w {
            self.extract(t, w - 1, 0)
        } else if signed {
            self.def(w, format!("((_ sign_extend {}) {})", w - t.w, t.s))
        } else {
            self.def(w, format!("((_ zero_extend {}) {})", w - t.w, t.s))
        }
    }
    fn concat(&mut self, hi: &T, lo: &T) -> T {
        self.def(hi.w + lo.w, format!("(concat {} {})", hi.s, lo.s))
    }
    fn ite(&mut self, c: &str, a: &T, b: &T) -> T {
        assert_eq!(a.w, b.w);
        if a.s == b.s {
            return a.clone();
        }
        self.def(a.w, format!("(ite {} {} {})", c, a.s, b.s))
    }
    fn nonzero(&self, t: &T) -> String {
        format!("(distinct {} {})", t.s, bv(0, t.w))
    }
    fn b2bv(&mut self, c: String, w: usize) -> T {
        let w = w.max(1);
        self.def(w, format!("(ite {} {} {})", c, bv(1, w), bv(0, w)))
    }
    fn bin(&mut self, f: &str, a: &T, b: &T) -> T {
        assert_eq!(a.w, b.w, "{f}");
        self.def(a.w, format!("({} {} {})", f, a.s, b.s))
    }

    // ---- variables -------------------------------------------------------

    fn info(&self, id: &VarId) -> R<&VarInfo> {
        self.vars.get(id).ok_or_else(|| format!("unknown variable {id}"))
    }
    fn flat_w(&self, id: &VarId) -> R<usize> {
        let i = self.info(id)?;
        Ok(i.sw * i.elems)
    }

    fn const_value(&mut self, id: &VarId) -> R<T> {
        let v = self.m.variables.get(id).unwrap();
        let (sw, elems) = {
            let i = self.info(id)?;
            (i.sw, i.elems)
        };
        let mut acc: Option<T> = None;
        for e in 0..elems {
            let val = v.value.get(e).or_else(|| v.value.first()).ok_or("param without value")?;
            let t = self.value_term(val, sw)?;
            acc = Some(match acc {
                None => t,
                Some(lo) => self.concat(&t, &lo),
            });
        }
        acc.ok_or_else(|| "empty param".to_string())
    }

    fn value_term(&mut self, val: &Value, w: usize) -> R<T> {
        if val.is_xz() {
            return Err("4-state literal".into());
        }
        let vw = val.width().max(1);
        let t = if vw <= 128 {
            self.lit(val.payload_u128(), vw)
        } else {
            // big literal: emit as hex
            let p = val.payload();
            let hex = format!("{:x}", p.as_ref());
            let digits = vw.div_ceil(4);
            let padded = format!("{:0>width$}", hex, width = digits);
            let t = T { s: format!("#x{}", padded), w: digits * 4 };
            self.extract(&t, vw - 1, 0)
        };
        Ok(self.resize(&t, w, val.signed()))
    }

    /// value of variable `id` as seen by a reader in process `reader` (None = outputs)
    fn read_var(&mut self, id: &VarId, env: &Env, ff_reader: bool) -> R<T> {
        if !ff_reader && let Some(t) = env.get(id) {
            if self.driver.get(id) == Some(&Driver::MultiComb) {
                return Err("process reads a variable whose other bits another process drives".into());
            }
            return Ok(t.clone());
        }
        if ff_reader && env.contains_key(id) {
            // e.g. a block-local `var` used as a temporary: blocking vs non-blocking
            // visibility is not modelled here
            return Err("always_ff reads a variable it has already assigned".into());
        }
        let (kind, name, w) = {
            let i = self.info(id)?;
            (i.kind, i.name.clone(), i.sw * i.elems)
        };
        match kind {
            VarKind::Param | VarKind::Const => return self.const_value(id),
            VarKind::Input => {
                return match &self.in_terms {
                    None => Ok(T { s: format!("in_{}", sanitize(&name)), w }),
                    Some(m) => {
                        let c = m.get(id).ok_or_else(|| format!("{name}: input port of an instance is not connected"))?;
                        if c.t.w != w {
                            return Err(format!("{name}: connection width {} vs port width {w}", c.t.w));
                        }
                        Ok(c.t.clone())
                    }
                };
            }
            VarKind::Inout => return Err("inout port".into()),
            _ => {}
        }
        match *self.driver.get(id).unwrap_or(&Driver::None) {
            Driver::Ff(_) => Ok(T { s: self.state_smt(&name), w }),
            Driver::Inst(d) => {
                let r = self.eval_inst(d)?;
                r.get(id).cloned().ok_or_else(|| format!("{name}: instance did not drive it"))
            }
            Driver::Comb(d) => {
                let r = self.eval_comb(d)?;
                r.get(id).cloned().ok_or_else(|| format!("{name}: comb process did not assign it"))
            }
            Driver::MultiComb => {
                // bit-disjoint writers, each starting from zeros: the value is the OR of the parts
                let ws = self.comb_writers.get(id).cloned().unwrap_or_default();
                let mut acc: Option<T> = None;
                for d in ws {
                    let r = self.eval_comb(d)?;
                    let part = r.get(id).cloned().ok_or_else(|| format!("{name}: comb process did not assign it"))?;
                    acc = Some(match acc {
                        None => part,
                        Some(a) => T { s: format!("(bvor {} {})", a.s, part.s), w: a.w },
                    });
                }
                acc.ok_or_else(|| format!("{name}: no writer"))
            }
            Driver::Multi => Err(format!("{name}: written by more than one process")),
            Driver::None => Err(format!("{name}: read but never driven")),
        }
    }

    fn state_smt(&self, name: &str) -> String {
        if self.prefix.is_empty() {
            format!("st_{}", sanitize(name))
        } else {
            format!("st_{}__i", sanitize(&format!("{}{}", self.prefix, name)))
        }
    }

    /// terms of everything a module instance drives in this module
    fn eval_inst(&mut self, d: usize) -> R<Env> {
        if let Some(e) = self.inst_done.get(&d) {
            return Ok(e.clone());
        }
        if !self.inst_busy.insert(d) {
            return Err("combinational path through a module instance back into itself".into());
        }
        if self.depth > 6 {
            return Err("instance nesting deeper than 6".into());
        }
        let Declaration::Inst(inst) = &self.m.declarations[d] else {
            return Err("not an instance".into());
        };
        let inst = inst.as_ref().clone();
        let air::Component::Module(child) = inst.component.as_ref() else {
            return Err("instance of a non-module component".into());
        };
        if !inst.hierarchy.is_empty() {
            return Err("instance inside a generate block".into());
        }
        let env0 = Env::new();
        let mut ins: HashMap<VarId, ChildIn> = HashMap::new();
        for i in &inst.inputs {
            let Some(e) = i.single() else {
                return Err("element-wise instance input connection".into());
            };
            let cv = child.variables.get(&i.id).ok_or("instance input: unknown child port")?;
            let w = cv.r#type.total_width().ok_or("child port width")? * cv.r#type.array.total().ok_or("child port array")?;
            if w == 0 {
                continue;
            }
            let v = self.expr(e, &env0, false)?;
            let t = self.resize(&v.t, w, v.signed);
            // a bare top-level input port keeps its identity (clock / reset wiring)
            let top_port = match e {
                Expression::Term(f) => match f.as_ref() {
                    Factor::Variable(id, idx, sel, _) if idx.0.is_empty() && sel.is_empty() => {
                        let vi = self.info(id)?;
                        if vi.kind == VarKind::Input {
                            match &self.in_terms {
                                None => Some(vi.name.clone()),
                                Some(m) => m.get(id).and_then(|c| c.top_port.clone()),
                            }
                        } else {
                            None
                        }
                    }
                    _ => None,
                },
                _ => None,
            };
            ins.insert(i.id, ChildIn { t, top_port });
        }
        let iname = veryl_parser::resource_table::get_str_value(inst.name).ok_or("instance name")?;
        let prefix = format!("{}{}.", self.prefix, iname);
        let built = build_module(child, &prefix, Some(ins), self.n, self.depth + 1)?;
        self.n = built.n;
        self.defs.extend(built.defs);
        self.assumptions.extend(built.assumptions);
        self.child_states.extend(built.states);
        self.child_ffs.extend(built.ffs);
        // outputs: child port value -> destination list (a concatenation when several)
        let mut env = Env::new();
        let ids: Vec<VarId> = self.driver.iter().filter(|(_, dr)| **dr == Driver::Inst(d)).map(|(id, _)| *id).collect();
        for id in ids {
            let w = self.flat_w(&id)?;
            env.insert(id, self.zeros(w));
        }
        for o in &inst.outputs {
            if o.dst.is_empty() {
                continue;
            }
            if o.dst.len() > 1
                && child.variables.get(&o.id).and_then(|v| v.r#type.array.total()).unwrap_or(1) > 1
            {
                // an unpacked-array port connected to an array slice is wired element by element, not as a
                // concatenation
                return Err("element-wise array output connection of an instance".into());
            }
            let Some(src) = built.out_terms.get(&o.id).cloned() else {
                return Err("instance output: child port has no term".into());
            };
            let mut widths = Vec::new();
            for dd in &o.dst {
                widths.push(self.dst_width(dd)?);
            }
            let total: usize = widths.iter().sum();
            if total == 0 {
                continue;
            }
            let src = self.resize(&src, total, false);
            let mut lo = 0;
            for (dd, w) in o.dst.iter().zip(widths.iter()).rev() {
                if *w == 0 {
                    continue;
                }
                let slice = self.extract(&src, lo + w - 1, lo);
                self.write(dd, &slice, &mut env, false)?;
                lo += w;
            }
        }
        self.inst_busy.remove(&d);
        self.inst_done.insert(d, env.clone());
        Ok(env)
    }

    fn eval_comb(&mut self, d: usize) -> R<Env> {
        if let Some(e) = self.comb_done.get(&d) {
            return Ok(e.clone());
        }
        if !self.comb_busy.insert(d) {
            return Err("combinational dependency cycle between processes".into());
        }
        let Declaration::Comb(c) = &self.m.declarations[d] else {
            return Err("not a comb process".into());
        };
        let mut env = Env::new();
        // every variable this process drives starts at 0 (a path that leaves a
        // bit unassigned is rejected by the analyzer's latch check)
        let ids: Vec<VarId> = self
            .driver
            .iter()
            .filter(|(id, dr)| {
                **dr == Driver::Comb(d)
                    || (**dr == Driver::MultiComb && self.comb_writers.get(id).is_some_and(|w| w.contains(&d)))
            })
            .map(|(id, _)| *id)
            .collect();
        for id in ids {
            let w = self.flat_w(&id)?;
            env.insert(id, self.zeros(w));
        }
        let stmts = c.statements.clone();
        self.exec(&stmts, &mut env, None)?;
        self.comb_busy.remove(&d);
        self.comb_done.insert(d, env.clone());
        Ok(env)
    }

    // ---- expressions -----------------------------------------------------

    fn expr(&mut self, e: &Expression, env: &Env, ff: bool) -> R<V> {
        if matches!(e, Expression::Ternary(..)) && e.comptime().r#type.is_unknown() {
            // e.g. a ternary whose condition is wider than one bit: accepted with a warning, no usable type
            return Err("expression the analyzer could not type (accepted with a warning)".into());
        }
        match e {
            Expression::Term(f) => self.factor(f, env, ff),
            Expression::Unary(op, x, ct) => {
                let xv = self.expr(x, env, ff)?;
                self.unary(*op, xv, ct.expr_context.width.max(1), ct.expr_context.signed)
            }
            Expression::Binary(x, op, y, ct) => {
                if *op == Op::As {
                    let src = &x.comptime().r#type;
                    if src.kind.is_float() || ct.r#type.kind.is_float() {
                        return Err("float cast".into());
                    }
                    let xv = self.expr(x, env, ff)?;
                    let cw = ct.r#type.total_width().ok_or("cast width")?.max(1);
                    let t = self.resize(&xv.t, cw, src.signed);
                    return Ok(V { t, signed: ct.r#type.signed });
                }
                let signed = if matches!(op, Op::Div | Op::Rem | Op::Greater | Op::GreaterEq | Op::Less | Op::LessEq) {
                    x.comptime().expr_context.signed & y.comptime().expr_context.signed
                } else {
                    ct.expr_context.signed
                };
                let xv = self.expr(x, env, ff)?;
                let yv = self.expr(y, env, ff)?;
                self.binary(*op, xv, yv, ct.expr_context.width.max(1), signed)
            }
            Expression::Ternary(c, a, b, ct) => {
                let cv = self.expr(c, env, ff)?;
                let av = self.expr(a, env, ff)?;
                let bv_ = self.expr(b, env, ff)?;
                // signedness of the result comes from the analyzer's contexts of the two branches (trusted input, as
                // for binary operators); each branch is extended by its own signedness
                let ctx_signed = a.comptime().expr_context.signed && b.comptime().expr_context.signed;
                let signed = av.signed && bv_.signed;
                let w = av.t.w.max(bv_.t.w).max(ct.expr_context.width);
                let at = self.resize(&av.t, w, ctx_signed && av.signed);
                let bt = self.resize(&bv_.t, w, ctx_signed && bv_.signed);
                let c = self.nonzero(&cv.t);
                let t = self.ite(&c, &at, &bt);
                Ok(V { t, signed })
            }
            Expression::Concatenation(items, _) => {
                let mut acc: Option<T> = None;
                for (it, rep) in items {
                    let v = self.expr(it, env, ff)?;
                    let w = it.comptime().r#type.total_width().ok_or("concat operand width")?;
                    if w == 0 {
                        continue;
                    }
                    let t = self.resize(&v.t, w, v.signed);
                    let n = match rep {
                        Some(r) => r
                            .eval_value(&mut self.ctx)
                            .and_then(|v| v.to_usize())
                            .ok_or("non-constant repeat")?,
                        None => 1,
                    };
                    for _ in 0..n {
                        acc = Some(match acc {
                            None => t.clone(),
                            Some(hi) => self.concat(&hi, &t),
                        });
                    }
                }
                let t = acc.ok_or("empty concatenation")?;
                Ok(V { t, signed: false })
            }
            Expression::ArrayLiteral(..) => Err("array literal".into()),
            Expression::StructConstructor(..) => Err("struct constructor".into()),
        }
    }

    fn factor(&mut self, f: &Factor, env: &Env, ff: bool) -> R<V> {
        match f {
            Factor::Value(ct) => {
                let val = ct.get_value().map_err(|_| "non-numeric value")?.clone();
                // a folded constant subexpression carries its value at the CONTEXT width it was evaluated in,
                // which can exceed the self-determined width recorded in its type (`~3'h0` in a 4-bit context)
                let w = ct.r#type.total_width().unwrap_or(val.width()).max(val.width()).max(1);
                let t = self.value_term(&val, w)?;
                Ok(V { t, signed: val.signed() })
            }
            Factor::Variable(id, index, select, ct) => {
                let flat = self.read_var(id, env, ff)?;
                let (sw, elems, dims, vsigned) = {
                    let i = self.info(id)?;
                    (i.sw, i.elems, i.dims, i.signed)
                };
                let mut narrowed = false;
                let elem = if index.0.is_empty() {
                    flat
                } else if index.is_const() {
                    let idx = index.eval_value(&mut self.ctx).ok_or("index eval")?;
                    let shape = &self.m.variables[id].r#type.array;
                    let k = shape.calc_index(&idx).ok_or("index out of range")?;
                    narrowed = true;
                    self.extract(&flat, (k + 1) * sw - 1, k * sw)
                } else {
                    if dims != 1 {
                        return Err("dynamic multi-dimensional index".into());
                    }
                    let iv = self.expr(&index.0[0], env, ff)?;
                    narrowed = true;
                    self.dyn_read(&flat, &iv.t, elems, sw)?
                };
                let var_type = self.m.variables[id].r#type.clone();
                if select.is_empty() {
                    if let Some(ps) = &ct.part_select {
                        let off: usize = ps.part_select.iter().map(|p| p.pos).sum();
                        let w = ps.part_select.last().and_then(|p| p.r#type.total_width()).ok_or("member width")?;
                        if off + w > elem.w || w == 0 {
                            return Err("part select out of range".into());
                        }
                        let t = self.extract(&elem, off + w - 1, off);
                        let ms = ps.part_select.last().map(|p| p.r#type.signed).unwrap_or(false);
                        return Ok(V { t, signed: ms });
                    }
                    let _ = narrowed;
                    return Ok(V { t: elem, signed: vsigned });
                }
                if select.is_const() {
                    let (hi, lo) = select.eval_value(&mut self.ctx, &var_type, false).ok_or("select eval")?;
                    if hi >= elem.w || lo > hi {
                        return Err("select out of range".into());
                    }
                    let t = self.extract(&elem, hi, lo);
                    return Ok(V { t, signed: false });
                }
                if select.is_range() || select.0.len() != 1 {
                    return Err("dynamic range / multi-dim select".into());
                }

                // dynamic single-element select on the (first) packed dimension
                let (n, stride) = packed_shape(&var_type, elem.w);
                let iv = self.expr(&select.0[0], env, ff)?;
                let t = self.dyn_read(&elem, &iv.t, n, stride)?;
                Ok(V { t, signed: false })
            }
            Factor::Anonymous(ct) => {
                let w = ct.r#type.total_width().unwrap_or(1).max(1);
                Ok(V { t: self.zeros(w), signed: false })
            }
            Factor::FunctionCall(_) => Err("function call".into()),
            Factor::SystemFunctionCall(_) => Err("system function call".into()),
            Factor::HierVariable(_) => Err("hierarchical reference".into()),
            Factor::Unknown(_) => Err("unknown factor".into()),
        }
    }

    /// element `idx` (stride bits each) of `flat`; records the in-range assumption
    fn dyn_read(&mut self, flat: &T, idx: &T, n: usize, stride: usize) -> R<T> {
        if n == 0 || stride == 0 || n * stride > flat.w {
            return Err("bad dynamic select shape".into());
        }
        self.assume_lt(idx, n);
        let w = flat.w.max(idx.w + 1) + 8;
        let f = self.resize(flat, w, false);
        let i = self.resize(idx, w, false);
        let sh = self.def(w, format!("(bvmul {} {})", i.s, bv(stride as u128, w)));
        let shifted = self.bin("bvlshr", &f, &sh);
        Ok(self.extract(&shifted, stride - 1, 0))
    }

    fn assume_lt(&mut self, idx: &T, n: usize) {
        // idx < n  (indices at or past the end read/write nothing meaningful)
        if idx.w < 64 && (n as u128) >= (1u128 << idx.w) {
            return;
        }
        self.assumptions.push(format!("(bvult {} {})", idx.s, bv(n as u128, idx.w)));
    }

    fn unary(&mut self, op: Op, x: V, w: usize, ctx_s: bool) -> R<V> {
        let ext = |b: &mut Self, v: &V| b.resize(&v.t, w.max(v.t.w), ctx_s && v.signed);
        let red = |b: &mut Self, c: String| -> R<V> { Ok(V { t: b.b2bv(c, w), signed: false }) };
        let xw = x.t.w;
        match op {
            Op::Add => {
                let t = ext(self, &x);
                Ok(V { t, signed: ctx_s && x.signed })
            }
            Op::Sub => {
                let e = ext(self, &x);
                let t = self.def(e.w, format!("(bvneg {})", e.s));
                Ok(V { t, signed: x.signed })
            }
            Op::BitNot => {
                let e = ext(self, &x);
                let t = self.def(e.w, format!("(bvnot {})", e.s));
                Ok(V { t, signed: x.signed })
            }
            Op::BitAnd => red(self, format!("(= {} {})", x.t.s, ones(xw))),
            Op::BitNand => red(self, format!("(distinct {} {})", x.t.s, ones(xw))),
            Op::BitOr => red(self, format!("(distinct {} {})", x.t.s, bv(0, xw))),
            Op::BitNor | Op::LogicNot => red(self, format!("(= {} {})", x.t.s, bv(0, xw))),
            Op::BitXor | Op::BitXnor => {
                // parity by folding
                let mut acc = self.extract(&x.t, 0, 0);
                for i in 1..xw {
                    let b = self.extract(&x.t, i, i);
                    acc = self.bin("bvxor", &acc, &b);
                }
                let c = if op == Op::BitXor {
                    format!("(= {} #b1)", acc.s)
                } else {
                    format!("(= {} #b0)", acc.s)
                };
                red(self, c)
            }
            _ => Err(format!("unary operator {op}")),
        }
    }

    fn binary(&mut self, op: Op, x: V, y: V, w: usize, ctx_s: bool) -> R<V> {
        let bit = |b: &mut Self, c: String| -> R<V> { Ok(V { t: b.b2bv(c, w), signed: false }) };
        match op {
            Op::Add | Op::Sub | Op::Mul | Op::Div | Op::Rem | Op::BitAnd | Op::BitOr | Op::BitXor | Op::BitXnor => {
                if x.t.w > w || y.t.w > w {
                    // a narrowing cast can leave a wider operand: truncate (resize() does)
                }
                let a = self.resize(&x.t, w, ctx_s && x.signed);
                let b = self.resize(&y.t, w, ctx_s && y.signed);
                let (f, rs) = match op {
                    Op::Add => ("bvadd", ctx_s),
                    Op::Sub => ("bvsub", ctx_s),
                    Op::Mul => ("bvmul", ctx_s),
                    Op::Div => (if ctx_s { "bvsdiv" } else { "bvudiv" }, ctx_s),
                    Op::Rem => (if ctx_s { "bvsrem" } else { "bvurem" }, ctx_s),
                    Op::BitAnd => ("bvand", false),
                    Op::BitOr => ("bvor", false),
                    Op::BitXor => ("bvxor", false),
                    _ => ("bvxnor", false),
                };
                if matches!(op, Op::Div | Op::Rem) {
                    // division by zero yields x in the RTL: not a 2-state behaviour
                    self.assumptions.push(format!("(distinct {} {})", b.s, bv(0, w)));
                }
                let t = self.bin(f, &a, &b);
                Ok(V { t, signed: rs })
            }
            Op::Eq | Op::Ne | Op::EqWildcard | Op::NeWildcard => {
                let cw = x.t.w.max(y.t.w);
                let s = x.signed && y.signed;
                let a = self.resize(&x.t, cw, s);
                let b = self.resize(&y.t, cw, s);
                let c = if matches!(op, Op::Eq | Op::EqWildcard) {
                    format!("(= {} {})", a.s, b.s)
                } else {
                    format!("(distinct {} {})", a.s, b.s)
                };
                bit(self, c)
            }
            Op::Greater | Op::GreaterEq | Op::Less | Op::LessEq => {
                let cw = x.t.w.max(y.t.w);
                let a = self.resize(&x.t, cw, ctx_s && x.signed);
                let b = self.resize(&y.t, cw, ctx_s && y.signed);
                let f = match (op, ctx_s) {
                    (Op::Greater, false) => "bvugt",
                    (Op::Greater, true) => "bvsgt",
                    (Op::GreaterEq, false) => "bvuge",
                    (Op::GreaterEq, true) => "bvsge",
                    (Op::Less, false) => "bvult",
                    (Op::Less, true) => "bvslt",
                    (Op::LessEq, false) => "bvule",
                    _ => "bvsle",
                };
                bit(self, format!("({} {} {})", f, a.s, b.s))
            }
            Op::LogicAnd => {
                let c = format!("(and {} {})", self.nonzero(&x.t), self.nonzero(&y.t));
                bit(self, c)
            }
            Op::LogicOr => {
                let c = format!("(or {} {})", self.nonzero(&x.t), self.nonzero(&y.t));
                bit(self, c)
            }
            Op::LogicShiftL | Op::ArithShiftL | Op::LogicShiftR | Op::ArithShiftR => {
                let a = self.resize(&x.t, w.max(x.t.w), ctx_s && x.signed);
                let aw = a.w;
                let ww = aw.max(y.t.w);
                let arith = op == Op::ArithShiftR && ctx_s;
                let ae = self.resize(&a, ww, arith);
                let ye = self.resize(&y.t, ww, false);
                let f = match op {
                    Op::LogicShiftL | Op::ArithShiftL => "bvshl",
                    Op::LogicShiftR => "bvlshr",
                    _ => {
                        if arith {
                            "bvashr"
                        } else {
                            "bvlshr"
                        }
                    }
                };
                let r = self.bin(f, &ae, &ye);
                let t = self.extract(&r, aw - 1, 0);
                let rs = matches!(op, Op::ArithShiftL | Op::ArithShiftR) && x.signed;
                Ok(V { t, signed: rs })
            }
            Op::Pow => Err("power operator".into()),
            _ => Err(format!("binary operator {op}")),
        }
    }

    // ---- statements --------------------------------------------------------

    /// `ff`: Some(reset-active Bool term) inside an always_ff (reads see the
    /// current state, writes build the next state); None inside always_comb.
    fn exec(&mut self, stmts: &[Statement], env: &mut Env, ff: Option<&str>) -> R<()> {
        for s in stmts {
            match s {
                Statement::Assign(a) => {
                    if a.dst.is_empty() {
                        continue;
                    }
                    let mut widths = Vec::new();
                    for d in &a.dst {
                        widths.push(self.dst_width(d)?);
                    }
                    let total: usize = widths.iter().sum();
                    if total == 0 {
                        continue;
                    }
                    let v = self.expr(&a.expr, env, ff.is_some())?;
                    let src = self.resize(&v.t, total, v.signed);
                    let mut lo = 0;
                    for (d, w) in a.dst.iter().zip(widths.iter()).rev() {
                        if *w == 0 {
                            continue;
                        }
                        let slice = self.extract(&src, lo + w - 1, lo);
                        self.write(d, &slice, env, ff.is_some())?;
                        lo += w;
                    }
                }
                Statement::If(i) => {
                    let c = self.expr(&i.cond, env, ff.is_some())?;
                    let cs = self.nonzero(&c.t);
                    let cs = self.def_bool(cs);
                    let mut t = env.clone();
                    let mut f = env.clone();
                    self.exec(&i.true_side, &mut t, ff)?;
                    self.exec(&i.false_side, &mut f, ff)?;
                    self.merge(&cs, env, t, f, ff.is_some())?;
                }
                Statement::IfReset(i) => {
                    let Some(rst) = ff else {
                        return Err("if_reset outside always_ff".into());
                    };
                    let rst = rst.to_string();
                    let mut t = env.clone();
                    let mut f = env.clone();
                    self.exec(&i.true_side, &mut t, ff)?;
                    self.exec(&i.false_side, &mut f, ff)?;
                    self.merge(&rst, env, t, f, true)?;
                }
                Statement::Case(c) => {
                    let lowered = c.lower_to_nested_if();
                    self.exec(&lowered, env, ff)?;
                }
                Statement::SystemFunctionCall(_) | Statement::Null | Statement::Unsupported(_) => {}
                Statement::For(_) => return Err("for statement".into()),
                Statement::FunctionCall(_) => return Err("function call statement".into()),
                Statement::TbMethodCall(_) | Statement::Break => return Err("testbench statement".into()),
            }
        }
        Ok(())
    }

    fn def_bool(&mut self, c: String) -> String {
        // name long conditions through a 1-bit vector
        if c.len() < 60 {
            return c;
        }
        let t = self.b2bv(c, 1);
        format!("(= {} #b1)", t.s)
    }

    fn merge(&mut self, c: &str, env: &mut Env, t: Env, f: Env, ff: bool) -> R<()> {
        let mut keys: Vec<VarId> = t.keys().chain(f.keys()).copied().collect();
        keys.sort();
        keys.dedup();
        for k in keys {
            let base = match env.get(&k) {
                Some(b) => b.clone(),
                None => self.hold_value(&k, ff)?,
            };
            let a = t.get(&k).cloned().unwrap_or_else(|| base.clone());
            let b = f.get(&k).cloned().unwrap_or_else(|| base.clone());
            let m = self.ite(c, &a, &b);
            env.insert(k, m);
        }
        Ok(())
    }

    /// value a variable keeps when a branch does not write it
    fn hold_value(&mut self, id: &VarId, ff: bool) -> R<T> {
        let (name, w) = {
            let i = self.info(id)?;
            (i.name.clone(), i.sw * i.elems)
        };
        if ff {
            Ok(T { s: self.state_smt(&name), w })
        } else {
            Ok(self.zeros(w))
        }
    }

    fn dst_width(&mut self, d: &air::AssignDestination) -> R<usize> {
        let (sw, tw) = {
            let i = self.info(&d.id)?;
            (i.sw, i.sw * i.elems)
        };
        let member_w = match &d.comptime.part_select {
            Some(ps) => ps.part_select.last().and_then(|p| p.r#type.total_width()).unwrap_or(sw),
            None => sw,
        };
        if d.select.is_empty() {
            if d.index.0.is_empty() && d.comptime.part_select.is_none() {
                return Ok(tw);
            }
            Ok(member_w)
        } else if d.select.is_const() {
            let (hi, lo) = d.select.eval_value(&mut self.ctx, &d.comptime.r#type, false).ok_or("dst select")?;
            Ok(hi + 1 - lo)
        } else if d.select.is_range() {
            Err("dynamic range select on destination".into())
        } else {
            Ok(1)
        }
    }

    fn write(&mut self, d: &air::AssignDestination, src: &T, env: &mut Env, ff: bool) -> R<()> {
        let (sw, elems, dims) = {
            let i = self.info(&d.id)?;
            (i.sw, i.elems, i.dims)
        };
        let tw = sw * elems;
        let old = match env.get(&d.id) {
            Some(t) => t.clone(),
            None => self.hold_value(&d.id, ff)?,
        };
        if d.select.is_empty() && d.index.0.is_empty() && d.comptime.part_select.is_none() {
            let t = self.resize(src, tw, false);
            env.insert(d.id, t);
            return Ok(());
        }
        let (moff, mw) = match &d.comptime.part_select {
            Some(ps) => (
                ps.part_select.iter().map(|p| p.pos).sum::<usize>(),
                ps.part_select.last().and_then(|p| p.r#type.total_width()).unwrap_or(sw),
            ),
            None => (0, sw),
        };
        // bit range inside the element
        enum Sel {
            Static(usize, usize),
            Dyn(T),
        }
        let sel = if d.select.is_empty() {
            Sel::Static(moff, moff + mw - 1)
        } else if d.select.is_const() {
            // a non-empty select is already in whole-variable coordinates (to_base_select)
            let (hi, lo) = d.select.eval_value(&mut self.ctx, &d.comptime.r#type, false).ok_or("dst select")?;
            Sel::Static(lo, hi)
        } else if d.select.is_range() || d.select.0.len() != 1 {
            return Err("dynamic range select on destination".into());
        } else {
            let env2 = env.clone();
            let iv = self.expr(&d.select.0[0], &env2, ff)?;
            Sel::Dyn(iv.t)
        };
        // element position
        enum Idx {
            Static(usize),
            Dyn(T),
        }
        let idx = if d.index.0.is_empty() {
            Idx::Static(0)
        } else if d.index.is_const() {
            let v = d.index.eval_value(&mut self.ctx).ok_or("dst index")?;
            let shape = &self.m.variables[&d.id].r#type.array;
            Idx::Static(shape.calc_index(&v).ok_or("dst index range")?)
        } else {
            if dims != 1 {
                return Err("dynamic multi-dimensional destination index".into());
            }
            let env2 = env.clone();
            let iv = self.expr(&d.index.0[0], &env2, ff)?;
            Idx::Dyn(iv.t)
        };
        let new = match (idx, sel) {
            (Idx::Static(k), Sel::Static(lo, hi)) => {
                let (lo, hi) = (k * sw + lo, k * sw + hi);
                if hi >= tw || src.w != hi - lo + 1 {
                    return Err(format!("destination slice mismatch ({}..{} of {}, src {})", lo, hi, tw, src.w));
                }
                self.splice(&old, src, lo)
            }
            (Idx::Dyn(i), Sel::Static(lo, hi)) => {
                if src.w != hi - lo + 1 {
                    return Err("destination slice mismatch".into());
                }
                self.assume_lt(&i, elems);
                self.dyn_splice(&old, src, &i, sw, lo)
            }
            (Idx::Static(k), Sel::Dyn(b)) => {
                if d.comptime.part_select.is_some() {
                    // `s.member[i] = bit`: the analyzer has already rebased the index into
                    // whole-variable coordinates (PartSelectPath::to_base_select)
                    if src.w != 1 {
                        return Err("dynamic element write width mismatch".into());
                    }
                    self.assumptions.push(format!(
                        "(and (bvuge {0} {1}) (bvult {0} {2}))",
                        b.s,
                        bv(moff as u128, b.w),
                        bv((moff + mw) as u128, b.w)
                    ));
                    let new = self.dyn_splice(&old, src, &b, 1, k * sw);
                    env.insert(d.id, new);
                    return Ok(());
                }
                let var_type = self.m.variables[&d.id].r#type.clone();
                let (n, stride) = packed_shape(&var_type, sw);
                if src.w != stride {
                    return Err("dynamic element write width mismatch".into());
                }
                self.assume_lt(&b, n);
                self.dyn_splice(&old, src, &b, stride, k * sw)
            }
            (Idx::Dyn(_), Sel::Dyn(_)) => return Err("dynamic index and dynamic select on destination".into()),
        };
        env.insert(d.id, new);
        Ok(())
    }

    /// old with bits [lo, lo+src.w) replaced by src
    fn splice(&mut self, old: &T, src: &T, lo: usize) -> T {
        let hi = lo + src.w - 1;
        let mut acc = src.clone();
        if lo > 0 {
            let low = self.extract(old, lo - 1, 0);
            acc = self.concat(&acc, &low);
        }
        if hi + 1 < old.w {
            let high = self.extract(old, old.w - 1, hi + 1);
            acc = self.concat(&high, &acc);
        }
        acc
    }

    /// old with bits [idx*stride + off, +src.w) replaced by src
    fn dyn_splice(&mut self, old: &T, src: &T, idx: &T, stride: usize, off: usize) -> T {
        let w = old.w.max(idx.w + 1) + 8;
        let o = self.resize(old, w, false);
        let i = self.resize(idx, w, false);
        let pos = self.def(w, format!("(bvadd (bvmul {} {}) {})", i.s, bv(stride as u128, w), bv(off as u128, w)));
        let mask0 = self.resize(&T { s: ones(src.w), w: src.w }, w, false);
        let mask = self.bin("bvshl", &mask0, &pos);
        let val0 = self.resize(src, w, false);
        let val = self.bin("bvshl", &val0, &pos);
        let nm = self.def(w, format!("(bvnot {})", mask.s));
        let kept = self.bin("bvand", &o, &nm);
        let r = self.bin("bvor", &kept, &val);
        self.extract(&r, old.w - 1, 0)
    }
}

fn ones(w: usize) -> String {
    format!("(bvnot {})", bv(0, w))
}

fn sanitize(s: &str) -> String {
    s.chars().map(|c| if c.is_ascii_alphanumeric() || c == '_' { c } else { '_' }).collect()
}

/// (element count, stride) addressed by a one-dimensional runtime select
fn packed_shape(t: &air::Type, total_bits: usize) -> (usize, usize) {
    let shape = t.width();
    if shape.dims() == 0 {
        return (total_bits, 1);
    }
    let mut stride = 1usize;
    for d in shape.iter().skip(1) {
        match d {
            Some(w) => stride *= w,
            None => return (total_bits, 1),
        }
    }
    let Some(Some(n)) = shape.iter().next().copied() else {
        return (total_bits, 1);
    };
    let kw = t.kind.width().unwrap_or(1);
    let stride = stride * kw;
    if stride == 0 || n * stride != total_bits {
        return (total_bits, 1);
    }
    (n, stride)
}

pub fn build(m: &air::Module) -> R<J> {
    let b = build_module(m, "", None, 0, 0)?;
    Ok(json!({
        "inputs": b.inputs, "outputs": b.outputs.into_iter().map(|(_, j)| j).collect::<Vec<_>>(),
        "states": b.states, "ffs": b.ffs,
        "defs": b.defs.iter().map(|(n, w, s)| json!([n, w, s])).collect::<Vec<_>>(),
        "assumptions": b.assumptions,
    }))
}

fn build_module(m: &air::Module, prefix: &str, in_terms: Option<HashMap<VarId, ChildIn>>, n0: usize, depth: usize) -> R<Built> {
    let is_child = in_terms.is_some();
    let mut b = Builder {
        m,
        ctx: veryl_analyzer::Context::default(),
        vars: HashMap::new(),
        driver: HashMap::new(),
        defs: vec![],
        assumptions: vec![],
        comb_done: HashMap::new(),
        comb_writers: HashMap::new(),
        comb_busy: HashSet::new(),
        n: n0,
        prefix: prefix.to_string(),
        in_terms,
        inst_done: HashMap::new(),
        inst_busy: HashSet::new(),
        child_states: vec![],
        child_ffs: vec![],
        depth,
    };
    let mut ids: Vec<&air::Variable> = m.variables.values().collect();
    ids.sort_by_key(|v| v.id);
    let mut names: HashMap<String, usize> = HashMap::new();
    for v in &ids {
        if matches!(v.kind, VarKind::Param | VarKind::Const) && v.r#type.total_array() == Some(1) {
            b.ctx.variables.insert(v.id, (*v).clone());
        }
        let sw = match v.r#type.total_width() {
            Some(w) => w,
            None => return Err(format!("{}: unresolved width", v.path)),
        };
        let elems = v.r#type.array.total().ok_or_else(|| format!("{}: unresolved array", v.path))?;
        if sw * elems == 0 {
            continue;
        }
        use air::TypeKind as K;
        let k = &v.r#type.kind;
        match k {
            K::Module(_) | K::Interface(_) | K::Modport(_, _) | K::Package(_) | K::Instance(_, _)
            | K::AbstractInterface(_) | K::SystemVerilog => return Err(format!("{}: non-data variable", v.path)),
            _ => {}
        }
        if k.is_float() {
            return Err("float variable".into());
        }
        let name = v.path.first().to_string();
        *names.entry(name.clone()).or_default() += 1;
        b.vars.insert(
            v.id,
            VarInfo {
                name,
                path: v.path.to_string(),
                kind: v.kind,
                sw,
                elems,
                dims: v.r#type.array.dims(),
                signed: v.r#type.signed,
                is_reset: v.r#type.is_reset(),
                reset_active_low: !matches!(k, K::ResetAsyncHigh | K::ResetSyncHigh),
                reset_sync: matches!(k, K::ResetSyncHigh | K::ResetSyncLow),
                is_clock: v.r#type.is_clock(),
                clock_negedge: matches!(k, K::ClockNegedge),
            },
        );
    }
    if let Some((n, _)) = names.iter().find(|(_, c)| **c > 1) {
        return Err(format!("several variables share the first path segment `{n}`"));
    }

    // drivers
    fn collect(stmts: &[Statement], f: &mut dyn FnMut(VarId)) {
        for s in stmts {
            match s {
                Statement::Assign(a) => a.dst.iter().for_each(|d| f(d.id)),
                Statement::If(i) => {
                    collect(&i.true_side, f);
                    collect(&i.false_side, f);
                }
                Statement::IfReset(i) => {
                    collect(&i.true_side, f);
                    collect(&i.false_side, f);
                }
                Statement::Case(c) => {
                    for a in &c.arms {
                        collect(&a.body, f);
                    }
                    collect(&c.default, f);
                }
                _ => {}
            }
        }
    }
    for (i, d) in m.declarations.iter().enumerate() {
        let (stmts, dr) = match d {
            Declaration::Comb(c) => (&c.statements, Driver::Comb(i)),
            Declaration::Ff(f) => (&f.statements, Driver::Ff(i)),
            Declaration::Inst(inst) => {
                for o in &inst.outputs {
                    for dd in &o.dst {
                        let e = b.driver.entry(dd.id).or_insert(Driver::None);
                        *e = if *e == Driver::None || *e == Driver::Inst(i) { Driver::Inst(i) } else { Driver::Multi };
                    }
                }
                continue;
            }
            Declaration::External(_) => return Err("external component".into()),
            Declaration::Initial(_) | Declaration::Final(_) | Declaration::Unsupported(_) | Declaration::Null => continue,
        };
        let mut set = Vec::new();
        collect(stmts, &mut |v| {
            if !set.contains(&v) {
                set.push(v)
            }
        });
        for v in set {
            let e = b.driver.entry(v).or_insert(Driver::None);
            *e = match (*e, dr) {
                (Driver::None, _) => dr,
                (Driver::Comb(_) | Driver::MultiComb, Driver::Comb(_)) => Driver::MultiComb,
                _ => Driver::Multi,
            };
            if let Driver::Comb(i) = dr {
                b.comb_writers.entry(v).or_default().push(i);
            }
        }
    }

    // always_ff blocks -> next state
    let mut next: HashMap<VarId, T> = HashMap::new();
    let mut ff_meta = Vec::new();
    for (i, d) in m.declarations.iter().enumerate() {
        let Declaration::Ff(f) = d else { continue };
        let clk = b.info(&f.clock.id)?;
        let negedge = clk.clock_negedge;
        if clk.kind != VarKind::Input {
            return Err("clock is not an input port".into());
        }
        let clk_name = match &b.in_terms {
            None => clk.name.clone(),
            Some(m) => m
                .get(&f.clock.id)
                .and_then(|c| c.top_port.clone())
                .ok_or("instance clock is not connected to a top-level port")?,
        };
        let (rst_term, rst_json) = match &f.reset {
            Some(r) => {
                let ri = b.info(&r.id)?;
                if ri.kind != VarKind::Input {
                    return Err("reset is not an input port".into());
                }
                let level = if ri.reset_active_low { "#b0" } else { "#b1" };
                let (term, port) = match &b.in_terms {
                    None => (format!("in_{}", sanitize(&ri.name)), ri.name.clone()),
                    Some(m) => {
                        let c = m.get(&r.id).ok_or("instance reset is not connected")?;
                        (c.t.s.clone(), c.top_port.clone().ok_or("instance reset is not connected to a top-level port")?)
                    }
                };
                (
                    format!("(= {} {})", term, level),
                    json!({"port": port, "active_low": ri.reset_active_low, "sync": ri.reset_sync}),
                )
            }
            None => ("false".to_string(), J::Null),
        };
        let mut env = Env::new();
        let stmts = f.statements.clone();
        b.exec(&stmts, &mut env, Some(&rst_term))?;
        let mut regs = Vec::new();
        for (id, t) in env {
            if b.driver.get(&id) != Some(&Driver::Ff(i)) {
                return Err("register written by several processes".into());
            }
            regs.push(format!("{}{}", b.prefix, b.info(&id)?.name));
            next.insert(id, t);
        }
        regs.sort();
        ff_meta.push(json!({"clock": clk_name, "negedge": negedge, "reset": rst_json, "regs": regs}));
    }

    // outputs
    let mut outputs = Vec::new();
    let mut out_terms = HashMap::new();
    let mut inputs = Vec::new();
    let mut states = Vec::new();
    let env0 = Env::new();
    // instances whose outputs nobody reads still own state
    for (i, d) in m.declarations.iter().enumerate() {
        if matches!(d, Declaration::Inst(_)) {
            b.eval_inst(i)?;
        }
    }
    for v in &ids {
        let Some(i) = b.vars.get(&v.id) else { continue };
        let (name, path, w, sw, elems, is_clock, is_reset) =
            (i.name.clone(), i.path.clone(), i.sw * i.elems, i.sw, i.elems, i.is_clock, i.is_reset);
        match v.kind {
            VarKind::Input => inputs.push(json!({"name": name, "path": path, "smt": format!("in_{}", sanitize(&name)), "width": w,
                                                 "clock": is_clock, "reset": is_reset})),
            VarKind::Output => {
                let t = b.read_var(&v.id, &env0, false)?;
                outputs.push((v.id, json!({"name": name, "path": path, "width": w, "term": t.s})));
                out_terms.insert(v.id, t);
            }
            VarKind::Inout => return Err("inout port".into()),
            _ => {}
        }
        if let Some(Driver::Ff(_)) = b.driver.get(&v.id) {
            let nt = next.get(&v.id).cloned().ok_or("register without next state")?;
            states.push(json!({"name": format!("{}{}", b.prefix, name), "smt": b.state_smt(&name), "width": w,
                               "elem_width": sw, "elems": elems, "next": nt.s}));
        }
    }
    let _ = is_child;
    states.extend(b.child_states.drain(..));
    ff_meta.extend(b.child_ffs.drain(..));
    Ok(Built { inputs, outputs, out_terms, states, ffs: ff_meta, defs: b.defs, assumptions: b.assumptions, n: b.n })
}

pub fn dump_all(ir: &air::Ir, only: Option<&str>) -> J {
    let mut modules = Vec::new();
    for c in &ir.components {
        let air::Component::Module(m) = c else { continue };
        let name = m.name.to_string();
        if let Some(o) = only
            && o != name
        {
            continue;
        }
        let r = std::panic::catch_unwind(std::panic::AssertUnwindSafe(|| build(m)));
        modules.push(match r {
            Ok(Ok(j)) => json!({"top": name, "supported": true, "rtl": j}),
            Ok(Err(e)) => json!({"top": name, "supported": false, "reason": e}),
            Err(_) => json!({"top": name, "supported": false, "reason": "panic in term builder"}),
        });
    }
    json!({"modules": modules})
}
