//! tvdump: runs the REAL front end (parser, analyzer) and the REAL synthesizer
//! of /repo on a design and dumps the objects the passes produced, for the SAT
//! miters in /verif/tv/miter.py.
//!
//!   tvdump netlists <file.veryl> <out.json> [top]
//!       every module of the file (or only `top`) under every configuration
//!       (cell library x RamConfig x restructure on/off)
//!   tvdump rtl <file.veryl> <out.json> [top]
//!       word-level SMT-LIB terms of the analyzer IR (stated subset; see rtl.rs)
//!   tvdump replay <file.veryl> <top> <stimulus.json>
//!       native evaluation of a counterexample with the repository's interpreter

mod netlist;
mod rtl;
mod sim;

use std::path::Path;
use veryl_analyzer::ir as air;
use veryl_analyzer::{Analyzer, Context, symbol_table};
use veryl_metadata::Metadata;
use veryl_parser::Parser;

pub fn analyze(code: &str, path: &Path) -> Result<air::Ir, String> {
    symbol_table::clear();
    let metadata = Metadata::create_default("prj").map_err(|e| format!("metadata: {e}"))?;
    let parser = Parser::parse(code, &path).map_err(|e| format!("parse: {e}"))?;
    let analyzer = Analyzer::new(&metadata);
    let mut context = Context::default();
    let mut errors = Vec::new();
    errors.append(&mut analyzer.analyze_pass1("prj", &parser.veryl));
    errors.append(&mut Analyzer::analyze_post_pass1());
    let mut ir = air::Ir::default();
    errors.append(&mut analyzer.analyze_pass2(&parser.veryl, &mut context, Some(&mut ir)));
    errors.append(&mut Analyzer::analyze_post_pass2(&ir));
    Ok(ir)
}

fn main() {
    let a: Vec<String> = std::env::args().collect();
    if a.len() < 4 {
        eprintln!("usage: tvdump netlists|rtl <file> <out.json> [top] | replay <file> <top> <stim.json>");
        std::process::exit(2);
    }
    let code = std::fs::read_to_string(&a[2]).expect("read source");
    let path = Path::new(&a[2]);
    match a[1].as_str() {
        "netlists" => {
            let ir = match analyze(&code, path) {
                Ok(ir) => ir,
                Err(e) => {
                    std::fs::write(&a[3], serde_json::json!({"error": e}).to_string()).unwrap();
                    return;
                }
            };
            let v = netlist::dump_all(&ir, a.get(4).map(|s| s.as_str()));
            std::fs::write(&a[3], v.to_string()).unwrap();
        }
        "dump" => {
            // netlists (every configuration) + RTL terms, one analysis
            let ir = match analyze(&code, path) {
                Ok(ir) => ir,
                Err(e) => {
                    std::fs::write(&a[3], serde_json::json!({"error": e}).to_string()).unwrap();
                    return;
                }
            };
            let only = a.get(4).map(|s| s.as_str());
            let quick = std::env::var_os("TVDUMP_FEW_CONFIGS").is_some();
            let v = serde_json::json!({
                "netlists": netlist::dump_some(&ir, only, quick),
                "rtl": rtl::dump_all(&ir, only),
            });
            std::fs::write(&a[3], v.to_string()).unwrap();
        }
        "rtl" => {
            let ir = match analyze(&code, path) {
                Ok(ir) => ir,
                Err(e) => {
                    std::fs::write(&a[3], serde_json::json!({"error": e}).to_string()).unwrap();
                    return;
                }
            };
            let v = rtl::dump_all(&ir, a.get(4).map(|s| s.as_str()));
            std::fs::write(&a[3], v.to_string()).unwrap();
        }
        "replay" => {
            let ir = analyze(&code, path).expect("analyze");
            let stim: serde_json::Value =
                serde_json::from_str(&std::fs::read_to_string(&a[4]).expect("stim")).expect("json");
            let out = sim::replay(&ir, &a[3], &stim);
            println!("{}", out);
        }
        _ => {
            eprintln!("unknown subcommand");
            std::process::exit(2);
        }
    }
}
