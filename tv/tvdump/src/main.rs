//! tvdump: runs the REAL front end (parser, analyzer) and the REAL synthesizer
//! of /repo on a design and dumps the objects the passes produced, for the SAT
//! miters in /verif/tv/miter.py.
//!
//!   tvdump netlists <file.veryl> <out.json> [top]
//!       every module of the file (or only `top`) under every configuration
//!       (cell library x RamConfig x restructure on/off)
//!   tvdump rtl <file.veryl> <out.json> [top]
//!       word-level SMT-LIB terms of the analyzer IR (stated subset; see rtl.rs)
//!   tvdump replay <file.veryl> <top> <stimulus.json>
//!       native evaluation of a counterexample with the repository's interpreter

mod netlist;
mod rtl;
mod sim;

use std::path::Path;
use veryl_analyzer::ir as air;
use veryl_analyzer::{Analyzer, Context, symbol_table};
use veryl_metadata::Metadata;
use veryl_parser::Parser;

pub fn analyze(code: &str, path: &Path) -> Result<air::Ir, String> {
    symbol_table::clear();
    let metadata = Metadata::create_default("prj").map_err(|e| format!("metadata: {e}"))?;
    let parser = Parser::parse(code, &path).map_err(|e| format!("parse: {e}"))?;
    let analyzer = Analyzer::new(&metadata);
    let mut context = Context::default();
    let mut errors = Vec::new();
    errors.append(&mut analyzer.analyze_pass1("prj", &parser.veryl));
    errors.append(&mut Analyzer::analyze_post_pass1());
    let mut ir = air::Ir::default();
    errors.append(&mut analyzer.analyze_pass2(&parser.veryl, &mut context, Some(&mut ir)));
    errors.append(&mut Analyzer::analyze_post_pass2(&ir));
    if std::env::var_os("TVDUMP_DIAG").is_some() {
        for e in &errors {
            eprintln!("[diag error={}] {e}", e.is_error());
        }
    }
    // a design the compiler rejects is not in the domain of any property: `veryl check` fails on exactly these
    if let Some(e) = errors.iter().find(|e| e.is_error()) {
        return Err(format!("rejected by the analyzer: {e}"));
    }
    Ok(ir)
}

fn main() {
    let a: Vec<String> = std::env::args().collect();
    if a.len() < 4 {
        eprintln!("usage: tvdump netlists|rtl <file> <out.json> [top] | replay <file> <top> <stim.json>");
        std::process::exit(2);
    }
    let code = std::fs::read_to_string(&a[2]).expect("read source");
    let path = Path::new(&a[2]);
    match a[1].as_str() {
        "netlists" => {
            let ir = match analyze(&code, path) {
                Ok(ir) => ir,
                Err(e) => {
                    std::fs::write(&a[3], serde_json::json!({"error": e}).to_string()).unwrap();
                    return;
                }
            };
            let v = netlist::dump_all(&ir, a.get(4).map(|s| s.as_str()));
            std::fs::write(&a[3], v.to_string()).unwrap();
        }
        "dump" => {
            // netlists (every configuration) + RTL terms, one analysis
            let ir = match analyze(&code, path) {
                Ok(ir) => ir,
                Err(e) => {
                    std::fs::write(&a[3], serde_json::json!({"error": e}).to_string()).unwrap();
                    return;
                }
            };
            let only = a.get(4).map(|s| s.as_str());
            let quick = std::env::var_os("TVDUMP_FEW_CONFIGS").is_some();
            let v = serde_json::json!({
                "netlists": netlist::dump_some(&ir, only, quick),
                "rtl": rtl::dump_all(&ir, only),
            });
            std::fs::write(&a[3], v.to_string()).unwrap();
        }
        "rtl" => {
            let ir = match analyze(&code, path) {
                Ok(ir) => ir,
                Err(e) => {
                    std::fs::write(&a[3], serde_json::json!({"error": e}).to_string()).unwrap();
                    return;
                }
            };
            let v = rtl::dump_all(&ir, a.get(4).map(|s| s.as_str()));
            std::fs::write(&a[3], v.to_string()).unwrap();
        }
        "clif" => {
            // experimental: CLIF text of the JIT + buffer layout of the top module's ports
            use veryl_simulator::ir::{Config, build_ir};
            let ir = analyze(&code, path).expect("analyze");
            let top = veryl_parser::resource_table::insert_str(&a[3]);
            let config = Config { use_jit: true, dump_cranelift: true, ..Default::default() };
            let sim_ir = build_ir(&ir, top, &config).expect("simulator ir");
            // one JSON line after the CLIF text the simulator printed while building
            let base_ff = sim_ir.ff_values.as_ptr() as usize;
            let base_comb = sim_ir.comb_values.as_ptr() as usize;
            let mut vars = Vec::new();
            let port_ids: std::collections::HashMap<_, _> = sim_ir.ports.iter().map(|(p, id)| (*id, p.to_string())).collect();
            // params / consts live in ordinary buffer cells initialised at build time and never written again
            let const_paths: std::collections::HashSet<String> = ir
                .components
                .iter()
                .filter_map(|c| match c {
                    veryl_analyzer::ir::Component::Module(m) if m.name == top => Some(m),
                    _ => None,
                })
                .flat_map(|m| m.variables.values())
                .filter(|v| matches!(v.kind, veryl_analyzer::ir::VarKind::Param | veryl_analyzer::ir::VarKind::Const))
                .map(|v| v.path.to_string())
                .collect();
            for (id, v) in &sim_ir.module_variables.variables {
                let mut elems = Vec::new();
                for (k, cur) in v.current_values.iter().enumerate() {
                    let p = *cur as usize;
                    let (kind, off) = if p >= base_ff && p < base_ff + sim_ir.ff_values.len() {
                        ("ff", p - base_ff)
                    } else {
                        ("comb", p.wrapping_sub(base_comb))
                    };
                    let next = v.next_values.get(k).map(|n| (*n as usize).wrapping_sub(base_ff));
                    let init = if const_paths.contains(&v.path.to_string()) && v.native_bytes <= 16 {
                        let mut x: u128 = 0;
                        for b in (0..v.native_bytes).rev() {
                            x = (x << 8) | unsafe { *(*cur as *const u8).add(b) } as u128;
                        }
                        Some(format!("{x:x}"))
                    } else {
                        None
                    };
                    elems.push(serde_json::json!({"kind": kind, "off": off, "next_off": next, "const_init": init}));
                }
                vars.push(serde_json::json!({
                    "path": v.path.to_string(), "port": port_ids.get(id), "width": v.width,
                    "native_bytes": v.native_bytes, "elems": elems,
                }));
            }
            println!("LAYOUT {}", serde_json::json!({
                "vars": vars, "ff_bytes": sim_ir.ff_values.len(), "comb_bytes": sim_ir.comb_values.len(),
                "children": sim_ir.module_variables.children.len(),
                "comb_passes": sim_ir.required_comb_passes,
                // statements of the comb list that are NOT JIT code (executed by the interpreter between chunks)
                "comb_interpreted": sim_ir.comb_statements.iter().filter(|s| !matches!(s,
                    veryl_simulator::ir::Statement::Compiled(_) | veryl_simulator::ir::Statement::CompiledBatch(_))).count(),
                "comb_compiled": sim_ir.comb_statements.iter().filter(|s| matches!(s,
                    veryl_simulator::ir::Statement::Compiled(_) | veryl_simulator::ir::Statement::CompiledBatch(_))).count(),
            }));
        }
        "ir" => {
            // debugging aid: the analyzer IR as text
            let ir = analyze(&code, path).expect("analyze");
            println!("{}", ir);
        }
        "jitdiff" => {
            // native replay of a CLIF-miter counterexample: the real JIT engine vs the real interpreter
            use veryl_analyzer::value::Value;
            use veryl_simulator::Simulator;
            use veryl_simulator::ir::{Config, build_ir};
            let ir = analyze(&code, path).expect("analyze");
            let top = veryl_parser::resource_table::insert_str(&a[3]);
            let stim: serde_json::Value =
                serde_json::from_str(&std::fs::read_to_string(&a[4]).expect("stim")).expect("json");
            let mut outs = Vec::new();
            for jit in [false, true] {
                let config = Config { use_jit: jit, ..Default::default() };
                let sim_ir = build_ir(&ir, top, &config).expect("simulator ir");
                let widths: std::collections::HashMap<String, usize> = sim_ir
                    .ports
                    .iter()
                    .filter_map(|(p, id)| sim_ir.module_variables.variables.get(id).map(|v| (p.to_string(), v.width)))
                    .collect();
                let mut sim = Simulator::new(sim_ir, None);
                // array ports: `Simulator::set/get` reach element 0 only; the other elements are written / read
                // through the same public buffer accessors (element 0 = least significant slice of the flat value)
                let port_var = |sim: &Simulator, name: &str| {
                    let p = veryl_simulator::ir::VarPath::new(veryl_parser::resource_table::insert_str(name));
                    sim.ir.ports.get(&p).and_then(|id| sim.ir.module_variables.variables.get(id)).map(|v| {
                        (v.current_values.clone(), v.native_bytes, v.width)
                    })
                };
                for (k, v) in stim["inputs"].as_object().expect("inputs") {
                    let hex = v.as_str().unwrap();
                    match port_var(&sim, k) {
                        Some((ptrs, nb, w)) if ptrs.len() > 1 && w <= 64 => {
                            let big = num_bigint_parse(hex);
                            for (e, ptr) in ptrs.iter().enumerate() {
                                let mut x: u128 = 0;
                                for b in 0..w {
                                    if bit_of(&big, e * w + b) {
                                        x |= 1 << b;
                                    }
                                }
                                unsafe {
                                    veryl_simulator::ir::write_native_value(*ptr, nb, sim.ir.use_4state, &Value::from_u128(x, 0, w, false));
                                }
                            }
                            sim.mark_comb_dirty();
                        }
                        _ => {
                            let x = u128::from_str_radix(hex, 16).unwrap_or(0);
                            sim.set(k, Value::from_u128(x, 0, *widths.get(k).unwrap_or(&128), false));
                        }
                    }
                }
                let mut row = serde_json::Map::new();
                for o in stim["outputs"].as_array().expect("outputs") {
                    let name = o.as_str().unwrap();
                    let v = match port_var(&sim, name) {
                        Some((ptrs, nb, w)) if ptrs.len() > 1 && w <= 64 => {
                            sim.ensure_comb_updated();
                            let mut parts = Vec::new();
                            for ptr in &ptrs {
                                let val = unsafe { veryl_simulator::ir::read_native_value(*ptr, nb, sim.ir.use_4state, w as u32, false) };
                                parts.push(format!("{:x}", val.payload_u128()));
                            }
                            parts.join(",")
                        }
                        _ => sim.get(name).map(|v| format!("{:x}", v.payload_u128())).unwrap_or_default(),
                    };
                    row.insert(name.to_string(), serde_json::Value::String(v));
                }
                outs.push(serde_json::Value::Object(row));
            }
            println!("{}", serde_json::json!({"interpreter": outs[0], "jit": outs[1], "differ": outs[0] != outs[1]}));
        }
        "replay" => {
            let ir = analyze(&code, path).expect("analyze");
            let stim: serde_json::Value =
                serde_json::from_str(&std::fs::read_to_string(&a[4]).expect("stim")).expect("json");
            let out = sim::replay(&ir, &a[3], &stim);
            println!("{}", out);
        }
        _ => {
            eprintln!("unknown subcommand");
            std::process::exit(2);
        }
    }
}


/// hex string -> little-endian bytes (array ports can be wider than 128 bits)
fn num_bigint_parse(hex: &str) -> Vec<u8> {
    let h = hex.trim_start_matches("0x");
    let mut out = Vec::new();
    let cs: Vec<char> = h.chars().rev().collect();
    for ch in cs.chunks(2) {
        let lo = ch[0].to_digit(16).unwrap_or(0) as u8;
        let hi = ch.get(1).and_then(|c| c.to_digit(16)).unwrap_or(0) as u8;
        out.push(lo | (hi << 4));
    }
    out
}

fn bit_of(bytes: &[u8], i: usize) -> bool {
    bytes.get(i / 8).is_some_and(|b| (b >> (i % 8)) & 1 == 1)
}
