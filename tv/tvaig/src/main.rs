//! tvaig: the REAL `aig` passes of veryl-synthesizer (built with the `aig`
//! feature) applied to each module's netlist; dumps
//!   g   the netlist the pipeline returns
//!   a1  aigify(g)            a2  rewrite(a1)
//!   g2  aig_to_cells_techmap(a2, g)      g3  aig_to_cells(a1, g)
//! for the miters in /verif/tv/miter.py (C21: rewriting plus technology
//! mapping leaves every output and flip-flop input function unchanged).

#[path = "../../tvdump/src/netlist.rs"]
#[allow(dead_code)]
mod netlist;

use serde_json::{Value, json};
use std::path::Path;
use veryl_analyzer::ir as air;
use veryl_analyzer::{Analyzer, Context, symbol_table};
use veryl_metadata::Metadata;
use veryl_parser::Parser;
use veryl_synthesizer::aig::graph::{AigModule, AigNode};
use veryl_synthesizer::aig::{convert, rewrite, techmap};

fn aig_json(a: &AigModule) -> Value {
    let nodes: Vec<Value> = a
        .nodes
        .iter()
        .map(|n| match n {
            AigNode::Const => json!({"k": "const"}),
            AigNode::Input { origin } => json!({"k": "input", "net": origin}),
            AigNode::And { fanin0, fanin1 } => json!({
                "k": "and",
                "a": [fanin0.node(), fanin0.is_negated()],
                "b": [fanin1.node(), fanin1.is_negated()],
            }),
        })
        .collect();
    let sinks: Vec<Value> = a
        .sinks
        .iter()
        .map(|s| json!({"target": s.target, "e": [s.edge.node(), s.edge.is_negated()]}))
        .collect();
    json!({"nodes": nodes, "sinks": sinks})
}

fn main() {
    let a: Vec<String> = std::env::args().collect();
    let code = std::fs::read_to_string(&a[1]).expect("read");
    symbol_table::clear();
    let metadata = Metadata::create_default("prj").unwrap();
    let parser = match Parser::parse(&code, &Path::new(&a[1])) {
        Ok(p) => p,
        Err(e) => {
            std::fs::write(&a[2], json!({"error": format!("parse: {e}")}).to_string()).unwrap();
            return;
        }
    };
    let analyzer = Analyzer::new(&metadata);
    let mut context = Context::default();
    let _ = analyzer.analyze_pass1("prj", &parser.veryl);
    let _ = Analyzer::analyze_post_pass1();
    let mut ir = air::Ir::default();
    let _ = analyzer.analyze_pass2(&parser.veryl, &mut context, Some(&mut ir));
    let _ = Analyzer::analyze_post_pass2(&ir);
    // the pipeline itself only does the AIG round trip, so that `rewrite` below has work to do
    unsafe { std::env::set_var("VERYL_AIG_ROUNDTRIP", "1") };
    let mut modules = Vec::new();
    for c in &ir.components {
        let air::Component::Module(m) = c else { continue };
        let name = m.name.to_string();
        let r = std::panic::catch_unwind(std::panic::AssertUnwindSafe(|| {
            let g = veryl_synthesizer::build_gate_ir(&ir, m.name).map_err(|e| format!("{e}"))?;
            let g = g.module;
            let a1 = convert::aigify(&g);
            let a2 = rewrite::rewrite(&a1);
            let g2 = techmap::aig_to_cells_techmap(&a2, &g);
            let g3 = convert::aig_to_cells(&a1, &g);
            Ok::<Value, String>(json!({
                "g": netlist::module_json(&g), "g2": netlist::module_json(&g2), "g3": netlist::module_json(&g3),
                "a1": aig_json(&a1), "a2": aig_json(&a2),
            }))
        }));
        modules.push(match r {
            Ok(Ok(v)) => json!({"top": name, "ok": true, "dump": v}),
            Ok(Err(e)) => json!({"top": name, "ok": false, "error": e}),
            Err(_) => json!({"top": name, "ok": false, "error": "panic in the aig passes"}),
        });
    }
    std::fs::write(&a[2], json!({"modules": modules}).to_string()).unwrap();
}
