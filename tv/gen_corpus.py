#!/usr/bin/env python3
"""Generated part of the C19/C21 corpus: small designs that systematically cross
operators x widths x signedness, sharing patterns (fan-out > 1), control
structures, register idioms and array/RAM write shapes.  VERIF_SEED perturbs
widths and constants of the families marked `var`; the fixed boundary members
are always present, so a seed never removes coverage."""
import os
import random


def mod(name, ports, body):
    ps = ",\n".join(f"    {n}: {d} {t}" for (n, d, t) in ports)
    return f"module {name} (\n{ps},\n) {{\n{body}\n}}\n"


def lg(w, signed=False):
    return ("signed " if signed else "") + (f"logic<{w}>" if w > 1 else "logic")


def clog2(n):
    k = 0
    while (1 << k) < n:
        k += 1
    return max(k, 1)


def gen(seed=0):
    rnd = random.Random(seed)
    out = []

    def add(name, src):
        out.append((f"gen::{name}", src))

    # 1. binary operators: widths and signedness
    ops = [("add", "+"), ("sub", "-"), ("and", "&"), ("or", "|"), ("xor", "^"), ("xnor", "~^"),
           ("eq", "=="), ("ne", "!="), ("lt", "<:"), ("le", "<="), ("gt", ">:"), ("ge", ">=")]
    wsets = [(4, 4, 4), (5, 3, 6), (3, 6, 4), (1, 4, 4), (7, 7, 9)]
    wsets.append((rnd.randint(2, 9), rnd.randint(2, 9), rnd.randint(2, 10)))
    for (n, o) in ops:
        for (wa, wb, wy) in wsets:
            for sg in (False, True):
                rel = n in ("eq", "ne", "lt", "le", "gt", "ge")
                yw = 1 if rel else wy
                name = f"Op_{n}_{wa}_{wb}_{wy}_{'s' if sg else 'u'}"
                add(name, mod(name, [("a", "input ", lg(wa, sg)), ("b", "input ", lg(wb, sg)),
                                     ("y", "output", lg(yw, sg and not rel))],
                              f"    assign y = a {o} b;"))
    for (wa, wb, wy) in [(4, 4, 8), (5, 3, 8), (6, 6, 6), (3, 3, 9)]:
        for sg in (False, True):
            name = f"Op_mul_{wa}_{wb}_{wy}_{'s' if sg else 'u'}"
            add(name, mod(name, [("a", "input ", lg(wa, sg)), ("b", "input ", lg(wb, sg)), ("y", "output", lg(wy, sg))],
                          "    assign y = a * b;"))
    for (wa, wb) in [(4, 4), (6, 3), (5, 5)]:
        for sg in (False, True):
            name = f"Op_divrem_{wa}_{wb}_{'s' if sg else 'u'}"
            add(name, mod(name, [("a", "input ", lg(wa, sg)), ("b", "input ", lg(wb, sg)),
                                 ("q", "output", lg(wa, sg)), ("r", "output", lg(wa, sg))],
                          "    assign q = a / b;\n    assign r = a % b;"))
    # shifts: amount narrower than, equal to and wider than log2(width)
    for w in (4, 8, 9, 13):
        for extra in (-1, 0, 1, 2):
            aw = clog2(w) + extra
            if aw < 1:
                continue
            for (n, o, sg) in [("shl", "<<", False), ("shr", ">>", False), ("ashr", ">>>", True), ("ashl", "<<<", True),
                               ("shrs", ">>", True)]:
                name = f"Sh_{n}_{w}_{aw}"
                add(name, mod(name, [("a", "input ", lg(w, sg)), ("s", "input ", lg(aw)), ("y", "output", lg(w, sg))],
                              f"    assign y = a {o} s;"))
    # unary / reductions
    for w in (1, 5, 8):
        name = f"Un_{w}"
        add(name, mod(name, [("a", "input ", lg(w)), ("n", "output", lg(w)), ("m", "output", lg(w)),
                             ("ra", "output", "logic"), ("ro", "output", "logic"), ("rx", "output", "logic"),
                             ("ln", "output", "logic")],
                      "    assign n  = ~a;\n    assign m  = -a;\n    assign ra = &a;\n    assign ro = |a;\n"
                      "    assign rx = ^a;\n    assign ln = !(|a);"))

    # 2. sharing patterns: an inner term with fan-out > 1 next to a factorable sum/product
    gates = [("and", "&"), ("or", "|"), ("xor", "^")]
    for (n1, o1) in gates:
        for (n2, o2) in gates:
            if n1 == n2:
                continue
            for w in (1, 4):
                name = f"Share_{n1}_{n2}_{w}"
                add(name, mod(name, [("x", "input ", lg(w)), ("a", "input ", lg(w)), ("b", "input ", lg(w)),
                                     ("c", "input ", lg(w)),
                                     ("z", "output", lg(w)), ("y", "output", lg(w)), ("v", "output", lg(w)),
                                     ("u", "output", lg(w))],
                              f"    assign z = x {o1} a;\n    assign y = (x {o1} a) {o2} (x {o1} b);\n"
                              f"    assign v = (x {o1} b) {o2} (x {o1} c);\n    assign u = (x {o1} c) {o2} (a {o1} x);"))
    # first arm shared with another consumer, second arm private (and the mirror image)
    for (n1, o1) in gates:
        for (n2, o2) in gates:
            if n1 == n2:
                continue
            for w in (1, 3):
                for mirror in (False, True):
                    name = f"Share2_{n1}_{n2}_{w}_{'m' if mirror else 'f'}"
                    first, second = (f"(x {o1} b)", f"(x {o1} a)") if mirror else (f"(x {o1} a)", f"(x {o1} b)")
                    add(name, mod(name, [("x", "input ", lg(w)), ("a", "input ", lg(w)), ("b", "input ", lg(w)),
                                         ("z", "output", lg(w)), ("y", "output", lg(w))],
                                  f"    assign z = x {o1} a;\n    assign y = {first} {o2} {second};"))
    for w in (1, 2):
        name = f"Share3_{w}"
        add(name, mod(name, [("clk", "input ", "clock"), ("x", "input ", lg(w)), ("a", "input ", lg(w)), ("b", "input ", lg(w)),
                             ("q", "output", lg(w)), ("y", "output", lg(w))],
                      f"    var r: logic<{w}>;\n    always_ff (clk) {{\n        r = x & a;\n    }}\n    assign q = r;\n"
                      "    assign y = (x & a) | (x & b);"))
    name = "Share_mux"
    add(name, mod(name, [("s", "input ", "logic"), ("t", "input ", "logic"), ("a", "input ", lg(4)), ("b", "input ", lg(4)),
                         ("c", "input ", lg(4)), ("p", "output", lg(4)), ("q", "output", lg(4)), ("r", "output", lg(4))],
                  "    var m: logic<4>;\n    assign m = if s ? a : b;\n    assign p = m;\n"
                  "    assign q = if t ? m : c;\n    assign r = if s ? (if t ? a : c) : (if t ? b : c);"))
    name = "Share_aoi"
    add(name, mod(name, [("a", "input ", "logic"), ("b", "input ", "logic"), ("c", "input ", "logic"), ("d", "input ", "logic"),
                         ("w", "output", "logic"), ("x", "output", "logic"), ("y", "output", "logic"), ("z", "output", "logic")],
                  "    var ab: logic;\n    var cd: logic;\n    assign ab = a & b;\n    assign cd = c | d;\n"
                  "    assign w = ~(ab | c);\n    assign x = ~(cd & a);\n    assign y = ~(ab | (c & d));\n    assign z = ab ^ cd;"))

    # 3. control: case / if chains
    for arms in (2, 3, 5, 8):
        sw = clog2(arms + 1)
        body = ["    always_comb {", "        case sel {"]
        for k in range(arms):
            body.append(f"            {sw}'d{k}: y = a + {4}'d{(k * 3 + 1) % 16};")
        body += ["            default: y = ~a;", "        }", "    }"]
        name = f"Case_{arms}"
        add(name, mod(name, [("sel", "input ", lg(sw)), ("a", "input ", lg(4)), ("y", "output", lg(4))], "\n".join(body)))
    name = "IfChain"
    add(name, mod(name, [("a", "input ", lg(6)), ("b", "input ", lg(6)), ("y", "output", lg(6)), ("f", "output", lg(2))],
                  "    always_comb {\n        f = 0;\n        if a <: b {\n            y = b - a;\n            f = 1;\n"
                  "        } else if a == b {\n            y = 0;\n            f = 2;\n        } else {\n            y = a - b;\n"
                  "            if a[5] {\n                f = 3;\n            }\n        }\n    }"))
    name = "Tern"
    add(name, mod(name, [("s", "input ", lg(2)), ("a", "input ", lg(5, True)), ("b", "input ", lg(3, True)),
                         ("y", "output", lg(7, True))],
                  "    assign y = if s == 0 ? a : if s == 1 ? b : if s == 2 ? a + b : a - b;"))
    name = "Concat"
    add(name, mod(name, [("a", "input ", lg(3)), ("b", "input ", lg(5)), ("y", "output", lg(12)), ("z", "output", lg(4))],
                  "    assign y = {a, b[4:1], {b[0] repeat 2}, a};\n    assign z = {a[0], b[2:0]} + 4'd3;"))
    name = "DynSel"
    add(name, mod(name, [("a", "input ", lg(12)), ("i", "input ", lg(4)), ("j", "input ", lg(2)),
                         ("b", "output", "logic"), ("n", "output", lg(3))],
                  "    var t: logic<4, 3>;\n    assign t = a;\n    assign b = a[i];\n    assign n = t[j];"))

    # 4. sequential idioms
    for rv in (0, 5, 15):
        name = f"Reg_rv{rv}"
        add(name, mod(name, [("clk", "input ", "clock"), ("rst", "input ", "reset"), ("en", "input ", "logic"),
                             ("clr", "input ", "logic"), ("d", "input ", lg(4)), ("q", "output", lg(4))],
                      f"    var r: logic<4>;\n    always_ff (clk, rst) {{\n        if_reset {{\n            r = 4'd{rv};\n"
                      "        } else if clr {\n            r = 0;\n        } else if en {\n            r = d;\n        }\n    }\n"
                      "    assign q = r;"))
    for (rt, nm) in [("reset_async_high", "ah"), ("reset_async_low", "al"), ("reset_sync_high", "sh"), ("reset_sync_low", "sl")]:
        for ck in ("clock", "clock_posedge", "clock_negedge"):
            name = f"Rst_{nm}_{ck}"
            add(name, mod(name, [("clk", "input ", ck), ("rst", "input ", rt), ("d", "input ", lg(3)), ("q", "output", lg(3))],
                          "    var r: logic<3>;\n    always_ff (clk, rst) {\n        if_reset {\n            r = 3'b110;\n"
                          "        } else {\n            r = d + r;\n        }\n    }\n    assign q = r;"))
    w = rnd.choice([5, 6, 7])
    name = "Counters"
    add(name, mod(name, [("clk", "input ", "clock"), ("rst", "input ", "reset"), ("up", "input ", "logic"),
                         ("ld", "input ", "logic"), ("d", "input ", lg(w)), ("c", "output", lg(w)),
                         ("g", "output", lg(w)), ("tc", "output", "logic")],
                  f"    var a: logic<{w}>;\n    var b: logic<{w}>;\n    always_ff (clk, rst) {{\n        if_reset {{\n            a = 0;\n"
                  f"            b = {w}'d3;\n        }} else {{\n            if ld {{\n                a = d;\n            }} else if up {{\n"
                  "                a = a + 1;\n            } else {\n                a = a - 1;\n            }\n"
                  "            b = b + 2;\n        }\n    }\n    assign c  = a;\n    assign g  = b ^ (b >> 1);\n"
                  f"    assign tc = a == {w}'d{(1 << w) - 1};"))
    name = "ShiftReg"
    add(name, mod(name, [("clk", "input ", "clock"), ("rst", "input ", "reset"), ("si", "input ", "logic"),
                         ("dir", "input ", "logic"), ("q", "output", lg(6))],
                  "    var r: logic<6>;\n    always_ff (clk, rst) {\n        if_reset {\n            r = 6'b100001;\n"
                  "        } else if dir {\n            r = {r[4:0], si};\n        } else {\n            r = {si, r[5:1]};\n        }\n    }\n"
                  "    assign q = r;"))
    name = "TwoProc"
    add(name, mod(name, [("clk", "input ", "clock"), ("rst", "input ", "reset"), ("a", "input ", lg(4)), ("b", "input ", lg(4)),
                         ("x", "output", lg(4)), ("y", "output", lg(4))],
                  "    var p: logic<4>;\n    var q: logic<4>;\n    always_ff (clk, rst) {\n        if_reset {\n            p = 1;\n"
                  "        } else {\n            p = q + a;\n        }\n    }\n    always_ff (clk, rst) {\n        if_reset {\n"
                  "            q = 2;\n        } else {\n            q = p ^ b;\n        }\n    }\n    assign x = p;\n    assign y = q & p;"))
    name = "NoReset"
    add(name, mod(name, [("clk", "input ", "clock"), ("en", "input ", "logic"), ("d", "input ", lg(3)), ("q", "output", lg(3))],
                  "    var r: logic<3>;\n    always_ff (clk) {\n        if en {\n            r = d;\n        }\n    }\n    assign q = r;"))

    # 5. arrays / RAM write shapes (small enough to stay flip-flops by default; ram-min1 turns them into RAM)
    def ram(name, write_body, depth=8, width=4, extra_ports=()):
        aw = clog2(depth)
        ports = [("clk", "input ", "clock"), ("we", "input ", "logic"), ("op", "input ", lg(2)),
                 ("wa", "input ", lg(aw)), ("wb", "input ", lg(aw)), ("wd", "input ", lg(width)),
                 ("ra", "input ", lg(aw)), ("rd", "output", lg(width))] + list(extra_ports)
        add(name, mod(name, ports, f"    var mem: logic<{width}> [{depth}];\n    always_ff (clk) {{\n{write_body}\n    }}\n"
                                   "    assign rd = mem[ra];"))

    ram("Ram_if", "        if we {\n            mem[wa] = wd;\n        }")
    ram("Ram_uncond", "        mem[wa] = wd;")
    ram("Ram_else", "        if we {\n            mem[wa] = wd;\n        } else {\n            mem[wb] = ~wd;\n        }")
    ram("Ram_nested", "        if we {\n            if op == 1 {\n                mem[wa] = wd;\n            }\n        }")
    ram("Ram_case_arm", "        case op {\n            2'd0: mem[wa] = wd;\n            2'd1: mem[wb] = wd + 1;\n            default: {}\n        }")
    ram("Ram_case_default", "        case op {\n            2'd0: {}\n            2'd1: {}\n            2'd2: {}\n            default: mem[wa] = wd;\n        }")
    ram("Ram_case_default2", "        case op {\n            2'd0: mem[wb] = ~wd;\n            2'd1: {}\n            default: mem[wa] = wd;\n        }")
    ram("Ram_elsif_chain", "        if op == 0 {\n        } else if op == 1 {\n            mem[wa] = wd;\n        } else if we {\n            mem[wb] = wd ^ 4'hf;\n        }")
    ram("Ram_depth5", "        if we {\n            mem[wa] = wd;\n        }", depth=5, width=3)
    ram("Ram_lane", "        if we {\n            mem[wa][1:0] = wd[1:0];\n        }\n        if op[0] {\n            mem[wa][3:2] = wd[3:2];\n        }")
    add("Ram_reset", mod("Ram_reset", [("clk", "input ", "clock"), ("rst", "input ", "reset"), ("we", "input ", "logic"),
                                       ("wa", "input ", lg(2)), ("wd", "input ", lg(3)), ("ra", "input ", lg(2)),
                                       ("rd", "output", lg(3))],
                         "    var mem: logic<3> [4];\n    always_ff (clk, rst) {\n        if_reset {\n            mem[0] = 1;\n"
                         "            mem[1] = 2;\n            mem[2] = 3;\n            mem[3] = 4;\n        } else if we {\n"
                         "            mem[wa] = wd;\n        }\n    }\n    assign rd = mem[ra];"))

    # 6. structs
    add("Struct1", mod("Struct1", [("a", "input ", lg(3)), ("b", "input ", lg(2)), ("s", "input ", "logic"),
                                   ("o", "output", lg(8)), ("p", "output", lg(3))],
                       "    struct T {\n        x: logic<3>,\n        y: logic<2>,\n        z: logic<3>,\n    }\n    var t: T;\n"
                       "    always_comb {\n        t   = '0;\n        t.x = a;\n        t.y = b;\n        if s {\n            t.z = a + 3'd1;\n"
                       "        }\n        o = {t.x, t.y, t.z};\n        p = t.z ^ t.x;\n    }"))

    # 7. restructuring shapes: long conditional-increment scans, nested enables, priority scans, long operator chains
    for n in (8, 10, 13):
        cw = clog2(n + 1) + 1
        ports = [("a", "input ", lg(n)), ("en", "input ", "logic"), ("init", "input ", lg(cw)), ("cnt", "output", lg(cw))]
        inc = lambda i: f"            cnt = cnt + {cw}'d1;"
        body = "    always_comb {\n        cnt = init;\n" + "".join(
            f"        if a[{i}] {{\n{inc(i)}\n        }}\n" for i in range(n)) + "    }"
        add(f"Scan_pop_{n}", mod(f"Scan_pop_{n}", ports, body))
        body = "    always_comb {\n        cnt = init;\n" + "".join(
            f"        if en {{\n            if a[{i}] {{\n    {inc(i)}\n            }}\n        }}\n" for i in range(n)) + "    }"
        add(f"Scan_pop_en_{n}", mod(f"Scan_pop_en_{n}", ports, body))
        body = "    always_comb {\n        cnt = init;\n" + "".join(
            f"        if !en {{\n        }} else if a[{i}] {{\n{inc(i)}\n        }}\n" for i in range(n)) + "    }"
        add(f"Scan_pop_elif_{n}", mod(f"Scan_pop_elif_{n}", ports, body))
        body = "    always_comb {\n        cnt = init;\n" + "".join(
            f"        if a[{i}] {{\n        }} else {{\n{inc(i)}\n        }}\n" for i in range(n)) + "    }"
        add(f"Scan_zero_{n}", mod(f"Scan_zero_{n}", ports, body))
        iw = clog2(n)
        body = ("    var found: logic;\n    always_comb {\n        found = 0;\n        idx = 0;\n" + "".join(
            f"        if !found && a[{i}] {{\n            idx = {iw}'d{i};\n            found = 1;\n        }}\n" for i in range(n)) +
            "        hit = found;\n    }")
        add(f"Scan_ctz_{n}", mod(f"Scan_ctz_{n}", [("a", "input ", lg(n)), ("idx", "output", lg(iw)), ("hit", "output", "logic")], body))
        body = "    always_comb {\n        idx = 0;\n" + "".join(
            f"        if a[{i}] {{\n            idx = {iw}'d{i};\n        }}\n" for i in range(n)) + "    }"
        add(f"Scan_last_{n}", mod(f"Scan_last_{n}", [("a", "input ", lg(n)), ("idx", "output", lg(iw))], body))
    for op, nm in (("+", "add"), ("^", "xor"), ("&", "and"), ("|", "or")):
        for n in (5, 9):
            cw = 6 if n == 5 else 4
            ports = [(f"x{i}", "input ", lg(cw)) for i in range(n)] + [("y", "output", lg(cw))]
            add(f"Chain_{nm}_{n}", mod(f"Chain_{nm}_{n}", ports, "    assign y = " + f" {op} ".join(f"x{i}" for i in range(n)) + ";"))
    ports = [(f"x{i}", "input ", lg(5)) for i in range(6)] + [("y", "output", lg(5))]
    add("Chain_mixed", mod("Chain_mixed", ports, "    assign y = x0 + x1 - x2 + (x3 & x4) - x5;"))

    add("Dup_arms", mod("Dup_arms", [("a", "input ", lg(4)), ("b", "input ", lg(4)), ("y", "output", lg(4)), ("z", "output", lg(4)),
                                     ("w", "output", lg(4))],
                        "    always_comb {\n        y = b;\n        if a == 4'hb {\n        } else if a == 4'hf {\n            y = 4'd1;\n"
                        "        } else if a == 4'h1 {\n        } else if a == 4'hf {\n        } else if a == 4'h9 {\n        } else if a == 4'hf {\n"
                        "            y = 4'd2;\n        }\n    }\n    always_comb {\n        case a {\n            4'hb: z = 4'd5;\n"
                        "            4'hf: z = 4'd1;\n            4'hf: z = 4'd2;\n            4'h3: z = b;\n            default: z = 4'd3;\n        }\n    }\n"
                        "    assign w = if a == 4'd2 ? 4'd1 : if a == 4'd7 ? 4'd2 : if a == 4'd2 ? 4'd4 : if a == 4'd9 ? 4'd8 : b;"))

    add("Cmp_in_unsigned", mod("Cmp_in_unsigned", [("a", "input ", lg(8, True)), ("b", "input ", lg(8, True)), ("u", "input ", lg(4)),
                                                   ("y0", "output", lg(4)), ("y1", "output", lg(4)), ("y2", "output", lg(4)),
                                                   ("y3", "output", lg(4))],
                               "    assign y0 = (a <: b) + u;\n    assign y1 = (a >= b) ^ u;\n    assign y2 = {(a >: b), (a <= b)} + u;\n"
                               "    assign y3 = if (a <: b) ? u : ~u;"))

    add("Ashr_unsigned", mod("Ashr_unsigned", [("a", "input ", lg(2)), ("b", "input ", lg(4)), ("s", "input ", lg(4, True)),
                                               ("n", "input ", lg(3)), ("y0", "output", lg(9)), ("y1", "output", lg(9)),
                                               ("y2", "output", lg(9)), ("y3", "output", lg(9)), ("y4", "output", lg(9))],
                             "    assign y0 = ((a - b) >>> 2);\n    assign y1 = (b >>> 1);\n    assign y2 = (s >>> 1);\n"
                             "    assign y3 = ((a - b) >>> n);\n    assign y4 = ((s - 4'sd1) >>> n);"))

    # 8. hierarchy: per-instance parameters, tied-off child inputs, state in children, two levels
    def hier(name, children, ports, body):
        add(name, children + mod(name, ports, body))
    addk = ("module {N} #(\n    param K: u32 = 1,\n) (\n    a: input  logic<8>,\n    y: output logic<8>,\n) {{\n"
            "    assign y = a + K;\n}}\n")
    hier("H_param", addk.format(N="H_param_AddK"),
         [("a", "input ", lg(8)), ("y3", "output", lg(8)), ("y5", "output", lg(8)), ("y1", "output", lg(8))],
         "    inst u3: H_param_AddK #( K: 3 ) ( a, y: y3 );\n    inst u5: H_param_AddK #( K: 5 ) ( a, y: y5 );\n"
         "    inst u1: H_param_AddK ( a, y: y1 );")
    ctl = ("module H_tie_Ctl (\n    stall: input  logic,\n    flush: input  logic,\n    busy : input  logic,\n    req  : input  logic,\n"
           "    gnt  : input  logic,\n    lock : input  logic,\n    ready: output logic,\n    idle : output logic,\n    any  : output logic,\n"
           "    all  : output logic,\n) {\n    assign ready = ~(stall | flush | busy);\n    assign idle  = ~(req & gnt & lock);\n"
           "    assign any   = stall | flush | busy;\n    assign all   = req & gnt & lock;\n}\n")
    hier("H_tie", ctl, [("stall", "input ", "logic"), ("req", "input ", "logic"), ("ready", "output", "logic"),
                         ("idle", "output", "logic"), ("any", "output", "logic"), ("all", "output", "logic")],
         "    inst c: H_tie_Ctl ( stall, flush: 1'b0, busy: 1'b0, req, gnt: 1'b1, lock: 1'b1, ready, idle, any, all );")
    hier("H_tie2", ctl.replace("H_tie_Ctl", "H_tie2_Ctl"),
         [("stall", "input ", "logic"), ("req", "input ", "logic"), ("ready", "output", "logic"),
          ("idle", "output", "logic"), ("any", "output", "logic"), ("all", "output", "logic")],
         "    inst c: H_tie2_Ctl ( stall, flush: 1'b1, busy: 1'b0, req, gnt: 1'b0, lock: 1'b1, ready, idle, any, all );")
    acc = ("module H_state_Acc (\n    clk: input  clock,\n    rst: input  reset,\n    en : input  logic,\n    d  : input  logic<4>,\n"
           "    q  : output logic<4>,\n) {\n    var r: logic<4>;\n    always_ff {\n        if_reset {\n            r = 2;\n"
           "        } else if en {\n            r = r + d;\n        }\n    }\n    assign q = r;\n}\n")
    hier("H_state", acc, [("clk", "input ", "clock"), ("rst", "input ", "reset"), ("e", "input ", lg(2)), ("d", "input ", lg(4)),
                           ("s", "output", lg(5))],
         "    var q0: logic<4>;\n    var q1: logic<4>;\n    inst a0: H_state_Acc ( clk, rst, en: e[0], d, q: q0 );\n"
         "    inst a1: H_state_Acc ( clk, rst, en: e[1] & ~e[0], d: d ^ q0, q: q1 );\n    assign s = {1'b0, q0} + {1'b0, q1};")
    leaf = ("module H_two_Leaf #(\n    param W: u32 = 4,\n    param INV: bit = 0,\n) (\n    a: input  logic<W>,\n    b: input  logic<W>,\n"
            "    y: output logic<W>,\n) {\n    assign y = if INV ? ~(a & b) : (a & b);\n}\n"
            "module H_two_Mid (\n    a: input  logic<4>,\n    b: input  logic<4>,\n    p: output logic<4>,\n    q: output logic<4>,\n) {\n"
            "    inst l0: H_two_Leaf #( W: 4, INV: 0 ) ( a, b, y: p );\n    inst l1: H_two_Leaf #( W: 4, INV: 1 ) ( a: a ^ 4'h3, b, y: q );\n}\n")
    hier("H_two", leaf, [("a", "input ", lg(4)), ("b", "input ", lg(4)), ("c", "input ", lg(4)), ("o", "output", lg(4)),
                          ("r", "output", lg(4))],
         "    var p0: logic<4>;\n    var q0: logic<4>;\n    var p1: logic<4>;\n    var q1: logic<4>;\n"
         "    inst m0: H_two_Mid ( a, b, p: p0, q: q0 );\n    inst m1: H_two_Mid ( a: c, b: p0, p: p1, q: q1 );\n"
         "    assign o = p1 | q0;\n    assign r = q1 ^ p0;")
    # a child full of complex-gate shapes, each on its own inputs; parents tie random subsets of the inputs to constants
    shapes = [("nor3", 3, "~({0} | {1} | {2})"), ("nand3", 3, "~({0} & {1} & {2})"), ("and3", 3, "{0} & {1} & {2}"),
              ("or3", 3, "{0} | {1} | {2}"), ("aoi21", 3, "~(({0} & {1}) | {2})"), ("oai21", 3, "~(({0} | {1}) & {2})"),
              ("ao21", 3, "({0} & {1}) | {2}"), ("oa21", 3, "({0} | {1}) & {2}"), ("aoi22", 4, "~(({0} & {1}) | ({2} & {3}))"),
              ("oai22", 4, "~(({0} | {1}) & ({2} | {3}))"), ("ao22", 4, "({0} & {1}) | ({2} & {3})"),
              ("aoi31", 4, "~(({0} & {1} & {2}) | {3})"), ("ao31", 4, "({0} & {1} & {2}) | {3}"),
              ("mux", 3, "if {0} ? {1} : {2}"), ("xnor", 2, "~({0} ^ {1})"), ("nand2", 2, "~({0} & {1})"), ("nor2", 2, "~({0} | {1})")]
    cports, cbody, k = [], [], 0
    for nm, ar, ex in shapes:
        ins = [f"pin{k + j}" for j in range(ar)]
        k += ar
        cports += [(i, "input ", "logic") for i in ins]
        cbody.append(f"    assign o_{nm} = " + ex.format(*ins) + ";")
    cports += [(f"o_{nm}", "output", "logic") for nm, _, _ in shapes]
    nin = k
    for v in range(8):
        cname = f"H_ties{v}_G"
        child = mod(cname, cports, "\n".join(cbody))
        nfree = 6
        conns = []
        for j in range(nin):
            r = rnd.random()
            if v == 0:
                # variant 0: per gate, all inputs but the first tied to the gate's unit/absorbing mix deterministically
                r = 0.0 if j % 2 == 0 else 0.35
            if r < 0.3:
                conns.append(f"pin{j}: x[{rnd.randrange(nfree)}]")
            elif r < 0.65:
                conns.append(f"pin{j}: 1'b0")
            else:
                conns.append(f"pin{j}: 1'b1")
        conns += [f"o_{nm}: y[{i}]" for i, (nm, _, _) in enumerate(shapes)]
        hier(f"H_ties{v}", child, [("x", "input ", lg(nfree)), ("y", "output", lg(len(shapes)))],
             f"    inst g: {cname} (\n        " + ",\n        ".join(conns) + ",\n    );")
    hier("H_tie3", ctl.replace("H_tie_Ctl", "H_tie3_Ctl").replace("    any  : output logic,\n", "").replace("    all  : output logic,\n", "")
         .replace("    assign any   = stall | flush | busy;\n", "").replace("    assign all   = req & gnt & lock;\n", ""),
         [("stall", "input ", "logic"), ("req", "input ", "logic"), ("ready", "output", "logic"), ("idle", "output", "logic")],
         "    inst c: H_tie3_Ctl ( stall, flush: 1'b0, busy: 1'b0, req, gnt: 1'b1, lock: 1'b1, ready, idle );")
    hier("H_concat", addk.format(N="H_concat_AddK"),
         [("a", "input ", lg(8)), ("hi", "output", lg(3)), ("lo", "output", lg(5))],
         "    inst u: H_concat_AddK #( K: 77 ) ( a, y: {hi, lo} );")
    return out


if __name__ == "__main__":
    import sys
    items = gen(int(sys.argv[1]) if len(sys.argv) > 1 else 0)
    print(len(items))
    if len(sys.argv) > 2:
        for n, s in items:
            if sys.argv[2] in n:
                print(s)


def gen_jit(seed=0):
    """Comb-only single- and two-operator designs at the JIT's width boundaries (<= 128 bits: native
    Cranelift integer types; wider values go through the wide_* helpers, decided by the Kani harnesses)."""
    rnd = random.Random(seed + 7)
    out = []

    def add(name, src):
        out.append((f"jit::{name}", src))
    widths = [1, 8, 31, 32, 33, 63, 64, 65, 100, 127, 128, rnd.randint(66, 126)]
    ops = [("add", "+"), ("sub", "-"), ("mul", "*"), ("and", "&"), ("or", "|"), ("xor", "^"), ("xnor", "~^"),
           ("eq", "=="), ("ne", "!="), ("lt", "<:"), ("le", "<="), ("gt", ">:"), ("ge", ">=")]
    for w in widths:
        for sg in (False, True):
            body = []
            ports = [("a", "input ", lg(w, sg)), ("b", "input ", lg(w, sg))]
            for (n, o) in ops:
                rel = n in ("eq", "ne", "lt", "le", "gt", "ge")
                ports.append((f"y_{n}", "output", lg(1 if rel else w, sg and not rel)))
                body.append(f"    assign y_{n} = a {o} b;")
            name = f"J_ops_{w}_{'s' if sg else 'u'}"
            add(name, mod(name, ports, "\n".join(body)))
        # division separately (x/0 is assumed away by the miter)
        if w <= 64:
            for sg in (False, True):
                name = f"J_div_{w}_{'s' if sg else 'u'}"
                add(name, mod(name, [("a", "input ", lg(w, sg)), ("b", "input ", lg(w, sg)),
                                     ("q", "output", lg(w, sg)), ("r", "output", lg(w, sg))],
                              "    assign q = a / b;\n    assign r = a % b;"))
        # shifts with amounts that can reach and exceed the width
        for aw in sorted({clog2(w), clog2(w) + 1, 8}):
            name = f"J_sh_{w}_{aw}"
            add(name, mod(name, [("a", "input ", lg(w)), ("sa", "input ", lg(w, True)), ("s", "input ", lg(aw)),
                                 ("l", "output", lg(w)), ("r", "output", lg(w)), ("ar", "output", lg(w, True)),
                                 ("al", "output", lg(w, True))],
                          "    assign l  = a << s;\n    assign r  = a >> s;\n    assign ar = sa >>> s;\n    assign al = sa <<< s;"))
        name = f"J_un_{w}"
        add(name, mod(name, [("a", "input ", lg(w)), ("n", "output", lg(w)), ("m", "output", lg(w)),
                             ("ra", "output", "logic"), ("ro", "output", "logic"), ("rx", "output", "logic"),
                             ("ln", "output", "logic")],
                      "    assign n  = ~a;\n    assign m  = -a;\n    assign ra = &a;\n    assign ro = |a;\n"
                      "    assign rx = ^a;\n    assign ln = !(|a);"))
    # mixed widths / context extension / multi-operator
    for (wa, wb, wy) in [(8, 16, 24), (33, 64, 65), (64, 64, 128), (100, 28, 128), (5, 3, 6)]:
        for sg in (False, True):
            name = f"J_mix_{wa}_{wb}_{wy}_{'s' if sg else 'u'}"
            add(name, mod(name, [("a", "input ", lg(wa, sg)), ("b", "input ", lg(wb, sg)), ("c", "input ", lg(wy, sg)),
                                 ("y", "output", lg(wy, sg)), ("z", "output", lg(wy, sg)), ("t", "output", "logic")],
                          "    assign y = a + b;\n    assign z = (a * b) - c;\n    assign t = (a + b) <: c;"))
    # unpacked arrays read at a run-time index (the JIT clamps the index and computes an address)
    for (n, ew, iw) in [(5, 6, 3), (8, 8, 3), (3, 33, 4), (7, 1, 5), (4, 100, 2)]:
        name = f"J_arr_{n}_{ew}_{iw}"
        add(name, mod(name, [("a", "input ", f"logic<{ew}> [{n}]"), ("i", "input ", lg(iw)), ("j", "input ", lg(iw)),
                             ("y", "output", lg(ew)), ("z", "output", lg(ew))],
                      "    assign y = a[i];\n    assign z = a[i] ^ a[j];"))
    name = "J_tern"
    add(name, mod(name, [("s", "input ", lg(2)), ("a", "input ", lg(70, True)), ("b", "input ", lg(40, True)),
                         ("y", "output", lg(80, True))],
                  "    assign y = if s == 0 ? a : if s == 1 ? b : if s == 2 ? a + b : a - b;"))
    name = "J_concat"
    add(name, mod(name, [("a", "input ", lg(30)), ("b", "input ", lg(50)), ("y", "output", lg(110)), ("z", "output", lg(64))],
                  "    assign y = {a, b, a};\n    assign z = {a[1:0], b[49:0], a[11:0]};"))
    return out


def gen_opt(seed=0):
    """Comb-only multi-statement designs shaped after what the simulator's optimisation passes look for:
    fusable chains, dead intermediates, duplicate and overriding assignments, versions of one variable inside a
    block, conditionally executed common subexpressions, case decoding, element-wise array lanes."""
    rnd = random.Random(seed + 13)
    out = []

    def add(name, src):
        out.append((f"opt::{name}", src))
    w = rnd.choice([7, 9, 12])
    for W in (8, 33, w):
        name = f"O_chain_{W}"
        add(name, mod(name, [("a", "input ", lg(W)), ("b", "input ", lg(W)), ("c", "input ", lg(W)),
                             ("y", "output", lg(W)), ("z", "output", lg(W))],
                      f"    var t1: logic<{W}>;\n    var t2: logic<{W}>;\n    var t3: logic<{W}>;\n    var dead: logic<{W}>;\n"
                      "    assign t1   = a + b;\n    assign t2   = t1 ^ c;\n    assign t3   = t2 & t1;\n    assign dead = t3 - a;\n"
                      "    assign y    = t3 | t2;\n    assign z    = t1 + t1;"))
        name = f"O_versions_{W}"
        add(name, mod(name, [("a", "input ", lg(W)), ("b", "input ", lg(W)), ("s", "input ", "logic"),
                             ("y", "output", lg(W)), ("z", "output", lg(W)), ("v", "output", lg(W))],
                      f"    var x: logic<{W}>;\n    always_comb {{\n        x = a;\n        x = x + 1;\n        y = x;\n        x = x ^ b;\n"
                      "        z = x;\n        if s {\n            x = x - y;\n        }\n        v = x;\n    }"))
        name = f"O_override_{W}"
        add(name, mod(name, [("a", "input ", lg(W)), ("b", "input ", lg(W)), ("s", "input ", lg(2)),
                             ("y", "output", lg(W)), ("f", "output", "logic")],
                      "    always_comb {\n        y = 0;\n        f = 0;\n        y = a;\n        if s == 1 {\n            y = b;\n            f = 1;\n"
                      "        } else if s == 2 {\n            y = a & b;\n        }\n        if s == 3 {\n            f = 1;\n        }\n    }"))
        name = f"O_hoist_{W}"
        add(name, mod(name, [("a", "input ", lg(W)), ("b", "input ", lg(W)), ("c", "input ", "logic"), ("d", "input ", "logic"),
                             ("x", "output", lg(W)), ("y", "output", lg(W))],
                      "    always_comb {\n        if c {\n            x = (a + b) ^ a;\n            y = a + b;\n        } else {\n"
                      "            x = (a - b) ^ a;\n            y = if d ? a + b : a - b;\n        }\n    }"))
    for arms in (4, 9, 17):
        sw = clog2(arms + 1)
        body = ["    always_comb {", "        g = 0;", "        case sel {"]
        for k in range(arms):
            body.append(f"            {sw}'d{k}: {{ y = a ^ 8'd{(k * 37 + 5) % 256}; g = {k % 2}; }}")
        body += ["            default: y = a;", "        }", "    }"]
        name = f"O_switch_{arms}"
        add(name, mod(name, [("sel", "input ", lg(sw)), ("a", "input ", lg(8)), ("y", "output", lg(8)), ("g", "output", "logic")],
                      "\n".join(body)))
    for (n, ew) in [(4, 8), (3, 33), (8, 4)]:
        body = "    always_comb {\n" + "\n".join(f"        y[{k}] = a[{k}] + b[{k}];" for k in range(n)) + "\n" + \
               "\n".join(f"        z[{k}] = (a[{k}] & b[{k}]) | y[{k}];" for k in range(n)) + "\n    }"
        name = f"O_lanes_{n}_{ew}"
        add(name, mod(name, [("a", "input ", f"logic<{ew}> [{n}]"), ("b", "input ", f"logic<{ew}> [{n}]"),
                             ("y", "output", f"logic<{ew}> [{n}]"), ("z", "output", f"logic<{ew}> [{n}]")], body))
    for W in (8, 40):
        name = f"O_single_{W}"
        add(name, mod(name, [("a", "input ", lg(W)), ("b", "input ", lg(W)), ("c", "input ", lg(W)), ("s", "input ", "logic"),
                             ("y", "output", lg(W)), ("z", "output", lg(W))],
                      f"    var t1: logic<{W}>;\n    var t2: logic<{W}>;\n    var t3: logic<{W}>;\n    var k1: logic<{W}>;\n"
                      "    assign t1 = a + b;\n    assign t2 = t1 ^ c;\n    assign t3 = t2 - a;\n    assign y  = t3 & ~b;\n"
                      "    assign k1 = c;\n    assign z  = if s ? k1 + t1 : k1 - b;"))
    for (arms, outs) in [(8, 2), (12, 3), (20, 2)]:
        sw = clog2(arms + 2)
        decl = "".join(f"    var r{k}: logic<8>;\n" for k in range(outs))
        body = [decl + "    always_comb {"] + [f"        r{k} = 8'd{k + 1};" for k in range(outs)] + ["        case sel {"]
        for k in range(arms):
            asg = " ".join(f"r{o} = 8'd{(k * (o + 3) * 29 + o) % 256};" for o in range(outs) if (k + o) % 3 != 0)
            body.append(f"            {sw}'d{k}: {{ {asg} }}")
        body += ["            default: { }", "        }"] + [f"        y{k} = r{k} ^ a;" for k in range(outs)] + ["    }"]
        name = f"O_lut_{arms}_{outs}"
        add(name, mod(name, [("sel", "input ", lg(sw)), ("a", "input ", lg(8))] + [(f"y{k}", "output", lg(8)) for k in range(outs)],
                      "\n".join(body)))
    for (N, Wd) in [(4, 8), (3, 20), (2, 70)]:
        # explicit transposition + per-row reduction (the shape lane_vector recovers), and a word assembled bit by bit
        decl = "".join(f"    var rev{j}: logic<{N}>;\n" for j in range(Wd))
        body = [decl + "    always_comb {"]
        for j in range(Wd):
            for i in range(N):
                body.append(f"        rev{j}[{i}] = m{i}[{j}];")
        for j in range(Wd):
            body.append(f"        o[{j}] = |rev{j};")
            body.append(f"        p[{j}] = &rev{j};")
        for j in range(Wd):
            body.append(f"        q[{j}] = m0[{j}] ^ m1[{(j + 1) % Wd}];")
        body.append("    }")
        name = f"O_transpose_{N}_{Wd}"
        add(name, mod(name, [(f"m{i}", "input ", lg(Wd)) for i in range(N)] +
                      [("o", "output", lg(Wd)), ("p", "output", lg(Wd)), ("q", "output", lg(Wd))], "\n".join(body)))
    for (N, Wd) in [(4, 8), (3, 20), (4, 64)]:
        # the same shapes as separate top-level assigns (what the fusion stages see as single statements)
        decl = "".join(f"    var rv{j}: logic<{N}>;\n" for j in range(Wd))
        body = [decl.rstrip("\n")]
        for j in range(Wd):
            for i in range(N):
                body.append(f"    assign rv{j}[{i}] = m{i}[{j}];")
        for j in range(Wd):
            body.append(f"    assign o[{j}] = |rv{j};")
        for j in range(Wd):
            body.append(f"    assign q[{j}] = m0[{j}] ^ m1[{(j + 1) % Wd}];")
        name = f"O_transpose_a_{N}_{Wd}"
        add(name, mod(name, [(f"m{i}", "input ", lg(Wd)) for i in range(N)] +
                      [("o", "output", lg(Wd)), ("q", "output", lg(Wd))], "\n".join(body)))
    for (n, ew) in [(4, 8), (8, 4)]:
        body = "\n".join(f"    assign y[{k}] = a[{k}] + b[{k}];" for k in range(n)) + "\n" + \
               "\n".join(f"    assign z[{k}] = (a[{k}] & b[{k}]) | y[{k}];" for k in range(n))
        name = f"O_lanes_a_{n}_{ew}"
        add(name, mod(name, [("a", "input ", f"logic<{ew}> [{n}]"), ("b", "input ", f"logic<{ew}> [{n}]"),
                             ("y", "output", f"logic<{ew}> [{n}]"), ("z", "output", f"logic<{ew}> [{n}]")], body))
    for (arms, outs) in [(9, 2), (16, 3), (40, 2)]:
        sw = clog2(arms + 2)
        body = ["    always_comb {"] + [f"        y{k} = 8'd{k + 1};" for k in range(outs)]
        for k in range(arms):
            asg = " ".join(f"y{o} = 8'd{(k * (o + 3) * 29 + o) % 256};" for o in range(outs) if (k + o) % 3 != 0)
            kw = "if" if k == 0 else "} else if"
            body.append(f"        {kw} sel == {sw}'d{k} {{ {asg}")
        body += ["        }", "    }"]
        name = f"O_lutif_{arms}_{outs}"
        add(name, mod(name, [("sel", "input ", lg(sw))] + [(f"y{k}", "output", lg(8)) for k in range(outs)], "\n".join(body)))
    for W in (8, 33, 64):
        # `let` bindings are the variables the fusion / dead-variable passes may retire
        name = f"O_let_{W}"
        add(name, mod(name, [("a", "input ", lg(W)), ("b", "input ", lg(W)), ("c", "input ", lg(W)), ("s", "input ", "logic"),
                             ("y", "output", lg(W)), ("z", "output", lg(W)), ("v", "output", lg(W))],
                      f"    let t1  : logic<{W}> = a + b;\n    let t2  : logic<{W}> = t1 ^ c;\n    let t3  : logic<{W}> = ~t2 - a;\n"
                      f"    let dead: logic<{W}> = t3 + c;\n    let m1  : logic<{W}> = a & c;\n    let m2  : logic<{W}> = a & c;\n"
                      f"    let k   : logic<{W}> = b;\n"
                      "    assign y = t3 & ~b;\n    assign z = if s ? m1 + k : m2 - k;\n    assign v = (m1 | k) ^ (m2 >> 1);"))
        name = f"O_letblk_{W}"
        add(name, mod(name, [("a", "input ", lg(W)), ("b", "input ", lg(W)), ("s", "input ", lg(2)),
                             ("y", "output", lg(W)), ("z", "output", lg(W))],
                      f"    always_comb {{\n        let p: logic<{W}> = a - b;\n        let q: logic<{W}> = p ^ (a << 1);\n"
                      "        y = q;\n        z = p;\n        if s[0] {\n            y = q + 1;\n        }\n"
                      "        if s[1] {\n            z = q & p;\n        }\n    }"))
    for W in (33, 40, 64, 100):
        # a selector wider than the 32-bit jump-table index: values that only differ above bit 31 must not alias
        name = f"O_widesel_{W}"
        arms = "\n".join(f"            {W}'d{k}: o = 8'd{10 * (k + 1)};" for k in range(4))
        add(name, mod(name, [("sel", "input ", lg(W)), ("o", "output", lg(8))],
                      "    always_comb {\n        case sel {\n" + arms + "\n            default: o = 8'd99;\n        }\n    }"))
    for (mw, imp) in [(4, True), (4, False), (6, True)]:
        # masked-equality chains over one selector (LUT mode); `imp`: one arm compares against a constant with a bit
        # outside its mask, which can never match
        name = f"O_lutmask_{mw}_{int(imp)}"
        lo, hi, full = (1 << (mw // 2)) - 1, ((1 << mw) - 1) & ~((1 << (mw // 2)) - 1), (1 << mw) - 1
        conds = [(lo, (lo + 4) & full if imp else lo, 1), (lo, 0, 2), (lo, 1, 3), (lo, 2, 1)]
        conds += [(hi, (k << (mw // 2)) & hi, 1 + k % 3) for k in range(1, 1 << (mw - mw // 2))]
        conds += [(full, 3, 2)]
        body = ["    always_comb {", "        o = 0;"]
        for i, (m, k, v) in enumerate(conds):
            kw = "if" if i == 0 else "} else if"
            body.append(f"        {kw} (s & {mw}'h{m:x}) == {mw}'h{k:x} {{\n            o = {v};")
        body += ["        }", "    }"]
        add(name, mod(name, [("s", "input ", lg(mw)), ("o", "output", lg(2))], "\n".join(body)))
    for W in (16, 40):
        # a folded constant default wider than its self-determined width, then a guarded override (version split)
        name = f"O_constdef_{W}"
        add(name, mod(name, [("a", "input ", lg(4)), ("s", "input ", "logic"), ("y0", "output", lg(W)), ("y1", "output", lg(W))],
                      f"    var v0: logic<{W}>;\n    always_comb {{\n        v0 = (~8'h6);\n        if s {{\n            v0 = a;\n        }}\n    }}\n"
                      "    assign y0 = v0;\n    assign y1 = (-4'h3) ^ a;"))
    for W in (65, 70, 128):
        # ternary with a 1-bit-producing branch inside a context wider than 64 bits
        name = f"O_ternwide_{W}"
        add(name, mod(name, [("a", "input ", lg(W)), ("c", "input ", lg(5)), ("d", "input ", lg(3)), ("y", "output", lg(W)),
                             ("z", "output", lg(W))],
                      "    assign y = (if c[0] ? (&c) : d) + a;\n    assign z = (if c[1] ? (c == 5'd1) : (d <: c)) | a;"))
    name = "O_sgncmp"
    add(name, mod(name, [("a", "input ", lg(3, True)), ("b", "input ", lg(7, True))] + [(f"y{k}", "output", "logic") for k in range(5)],
                  "    assign y0 = (a >: b[3:1]);\n    assign y1 = (b[3:1] <: a);\n    assign y2 = (a >= b[3:1]);\n"
                  "    assign y3 = (a <: b[2:1]);\n    assign y4 = (b[6:1] >: a);"))
    for W in (4, 7):
        # selects of signed variables inside signed contexts
        name = f"O_sgnsel_{W}"
        add(name, mod(name, [("a", "input ", lg(W, True)), ("b", "input ", lg(W, True))] + [(f"y{k}", "output", lg(2 * W)) for k in range(7)],
                      f"    assign y0 = ~a[1];\n    assign y1 = -a[2:1];\n    assign y2 = a[1] + b;\n    assign y3 = a[{W - 1}:{W - 2}] ^ b;\n"
                      f"    assign y4 = if b[0] ? a[{W - 1}:{W - 2}] : b;\n    assign y5 = a[{W - 1}:{W - 2}] <: b;\n    assign y6 = a[{W - 1}:{W - 2}] >>> 1;"))
    for W in (8, 20):
        # a chain input rewritten inside the span of a base write + guarded override (version split must see the
        # value the base write saw), in several orders
        for k, body in enumerate([
            "        t = a;\n        x = t;\n        t = b;\n        y = t;\n        if c {\n            x = d;\n        }",
            "        t = a;\n        x = t + 1;\n        if c {\n            x = d;\n        }\n        t = b;\n        y = t ^ x;",
            "        t = a;\n        x = t;\n        y = t;\n        t = t + b;\n        if c {\n            x = t;\n        } else if d[0] {\n            y = t;\n        }\n        t = d;",
            "        t = a;\n        x = ~t;\n        t = b;\n        if c {\n            x[3:0] = t[3:0];\n        }\n        y = x;\n        t = a & b;",
        ]):
            name = f"O_vsrw{k}_{W}"
            add(name, mod(name, [("a", "input ", lg(W)), ("b", "input ", lg(W)), ("c", "input ", "logic"), ("d", "input ", lg(W)),
                                 ("x", "output", lg(W)), ("y", "output", lg(W)), ("z", "output", lg(W))],
                          f"    var t: logic<{W}>;\n    always_comb {{\n" + body + "\n    }\n    assign z = t;"))
    name = "O_dup"
    add(name, mod(name, [("a", "input ", lg(6)), ("b", "input ", lg(6)), ("p", "output", lg(6)), ("q", "output", lg(6)),
                         ("r", "output", lg(6))],
                  "    var m: logic<6>;\n    var n: logic<6>;\n    assign m = a * b;\n    assign n = a * b;\n    assign p = m;\n"
                  "    assign q = n + m;\n    assign r = (a * b) - n;"))
    name = "O_bits"
    add(name, mod(name, [("a", "input ", lg(16)), ("y", "output", lg(16)), ("z", "output", lg(4))],
                  "    always_comb {\n        y        = 0;\n        y[3:0]   = a[15:12];\n        y[7:4]   = a[3:0] + 4'd1;\n"
                  "        y[15:8]  = {a[7:4], a[11:8]};\n        z        = y[7:4] ^ y[3:0];\n    }"))
    return out


# ---------------------------------------------------------------------------------------------
# random comb-only programs (shared by C03 / C18 / C19 / C21): lets with shared right-hand sides at different
# widths, variables rewritten inside a block, guarded overrides, slices of one selector compared with constants,
# dynamic index / bit select through lets, partial assignments
# ---------------------------------------------------------------------------------------------
class _RandMod:
    WIDTHS = [1, 1, 2, 3, 4, 4, 5, 7, 8, 8, 9, 12, 16, 24, 32, 33, 40, 64]

    def __init__(self, rnd, name):
        self.r = rnd
        self.name = name
        self.vals = []       # (expr text, width) readable anywhere (inputs, lets)
        self.pool = []       # previously generated expression texts (for sharing)
        self.lines = []
        self.ports = []
        self.rich = rnd.random() < 0.5   # half of the designs also draw >>>, <<<, *, /, %
        self.nosel = set()   # signed variables that must not be bit-/part-selected (VERIF_NO_SIGNED_SELECT, debugging aid)

    def w(self, small=False):
        return self.r.choice(self.WIDTHS[:12] if small else self.WIDTHS)

    def const(self, w):
        v = self.r.choice([0, 1, (1 << w) - 1, self.r.randrange(1 << w), self.r.randrange(1 << min(w, 4))]) & ((1 << w) - 1)
        return f"{w}'h{v:x}"

    def atom(self, vals):
        t, w = self.r.choice(vals)
        k = self.r.random()
        if t in self.nosel:
            k = max(k, 0.3)
        if w > 1 and k < 0.15:
            i = self.r.randrange(w)
            return f"{t}[{i}]"
        if w > 2 and k < 0.3:
            lo = self.r.randrange(w - 1)
            hi = self.r.randrange(lo, w)
            return f"{t}[{hi}:{lo}]"
        if k < 0.38:
            return self.const(self.w(small=True))
        return t

    def expr(self, vals, depth=0):
        r = self.r
        if depth >= 3 or r.random() < 0.25:
            return self.atom(vals)
        if self.pool and r.random() < 0.18:
            return r.choice(self.pool)
        k = r.random()
        a = self.expr(vals, depth + 1)
        if k < 0.42:
            op = r.choice(["+", "-", "&", "|", "^", "+", "^", "&"])
            e = f"({a} {op} {self.expr(vals, depth + 1)})"
        elif k < 0.5:
            e = f"(~{a})"
        elif k < 0.56:
            e = f"({r.choice(['&', '|', '^'])}{self.atom(vals)})"
        elif k < 0.64:
            e = f"({a} {r.choice(['<<', '>>'])} {r.choice(['1', '2', '3', '5', self.atom(vals)])})"
        elif k < 0.76:
            e = f"({a} {r.choice(['==', '!=', '<:', '>=', '>:', '<='])} {self.expr(vals, depth + 1)})"
        elif k < 0.88:
            e = f"(if {self.cond(vals, depth + 1)} ? {a} : {self.expr(vals, depth + 1)})"
        elif k < 0.93:
            e = "{" + a + ", " + self.expr(vals, depth + 1) + "}"
        elif k < 0.95:
            e = "{" + self.atom(vals) + f" repeat {r.choice([2, 3])}" + "}"
        elif k < 0.97 and self.rich:
            # arithmetic shifts, and multiply / divide / remainder on narrow atoms (kept narrow for the solver)
            narrow = [v for v in vals if v[1] <= 6]
            sh = [f"({a} >>> {r.choice(['1', '2', '7'])})", f"({a} <<< 1)"]
            if narrow:
                x, y = r.choice(narrow)[0], r.choice(narrow)[0]
                sh += [f"({x} * {y})", f"({x} / {y})", f"({x} % {y})"]
            e = r.choice(sh)
        else:
            e = f"(-{a})"
        if depth <= 1 and len(e) < 120:
            self.pool.append(e)
        return e

    def cond(self, vals, depth=0):
        """a 1-bit condition (a wider one is accepted with a warning and is not generated here)"""
        r = self.r
        k = r.random()
        if k < 0.35:
            t, w = r.choice(vals)
            if w > 1 and t not in self.nosel:
                lo = r.randrange(w)
                hi = min(w - 1, lo + r.randrange(3))
                return f"{t}[{hi}:{lo}] == {self.const(hi - lo + 1)}"
            if w == 1:
                return t
            return f"({t} != {self.const(w)})"
        if k < 0.55 and depth < 2:
            return f"({self.cond(vals, depth + 1)} {r.choice(['&&', '||'])} {self.cond(vals, depth + 1)})"
        if k < 0.65:
            return f"!({self.atom(vals)} == {self.const(3)})"
        if k < 0.8:
            return f"({r.choice(['|', '&', '^'])}{self.atom(vals)})"
        return f"({self.expr(vals, depth + 1)} {r.choice(['==', '!=', '<:', '>='])} {self.expr(vals, depth + 2)})"

    def stmts(self, owned, vals, depth, n, ind):
        r = self.r
        out = []
        pad = "    " * ind
        for _ in range(n):
            k = r.random()
            rd = vals + [(v, w) for v, w in owned if r.random() < 0.6]
            if k < 0.5 or depth >= 2:
                v, w = r.choice(owned)
                if w > 2 and r.random() < 0.25:
                    lo = r.randrange(w - 1)
                    hi = r.randrange(lo, w)
                    out.append(f"{pad}{v}[{hi}:{lo}] = {self.expr(rd)};")
                else:
                    out.append(f"{pad}{v} = {self.expr(rd)};")
            elif k < 0.75:
                out.append(f"{pad}if {self.cond(rd)} {{")
                out += self.stmts(owned, vals, depth + 1, r.randrange(1, 3), ind + 1)
                if r.random() < 0.5:
                    out.append(f"{pad}}} else {{")
                    out += self.stmts(owned, vals, depth + 1, r.randrange(1, 3), ind + 1)
                out.append(f"{pad}}}")
            elif k < 0.9:
                # chain over slices of one selector
                t, w = r.choice([x for x in vals if x[1] >= 4] or vals)
                arms = r.randrange(3, 9)
                for i in range(arms):
                    if w >= 4 and r.random() < 0.8 and t not in self.nosel:
                        lo = r.choice([0, 0, 0, 2, 1]) if i else 0
                        hi = min(w - 1, lo + r.choice([1, 1, 2, 3]))
                        c = f"{t}[{hi}:{lo}] == {hi - lo + 1}'d{r.randrange(1 << (hi - lo + 1))}"
                    else:
                        c = f"{t} == {self.const(w)}"
                    out.append(f"{pad}{'if' if i == 0 else '} else if'} {c} {{")
                    out += self.stmts(owned, vals, depth + 2, 1, ind + 1)
                if r.random() < 0.6:
                    out.append(f"{pad}}} else {{")
                    out += self.stmts(owned, vals, depth + 2, 1, ind + 1)
                out.append(f"{pad}}}")
            else:
                t, w = r.choice([x for x in vals if 2 <= x[1] <= 8] or vals)
                out.append(f"{pad}case {t} {{")
                seen = set()
                for i in range(r.randrange(2, 6)):
                    cv = r.randrange(1 << min(w, 8))
                    if cv in seen:
                        continue
                    seen.add(cv)
                    v, vw = r.choice(owned)
                    if self.rich and r.random() < 0.25 and cv + 2 < (1 << min(w, 8)) and not (seen & {cv + 1, cv + 2}):
                        seen.update({cv + 1, cv + 2})
                        out.append(f"{pad}    {w}'d{cv}..={w}'d{cv + 2}: {v} = {self.expr(rd)};")
                    else:
                        out.append(f"{pad}    {w}'d{cv}: {v} = {self.expr(rd)};")
                v, vw = r.choice(owned)
                out.append(f"{pad}    default: {v} = {self.expr(rd)};")
                out.append(f"{pad}}}")
        return out

    def build(self):
        r = self.r
        nin = r.randrange(3, 6)
        for i in range(nin):
            w = self.w()
            sg = r.random() < 0.15 and w > 1
            self.ports.append((f"i{'abcdefg'[i]}", "input ", lg(w, sg)))
            self.vals.append((f"i{'abcdefg'[i]}", w))
            if sg and os.environ.get("VERIF_NO_SIGNED_SELECT"):
                self.nosel.add(f"i{'abcdefg'[i]}")
        has_arr = r.random() < 0.45
        if has_arr:
            ew, n = r.choice([3, 4, 8, 9]), r.choice([2, 4, 4, 8])
            self.ports.append(("arr", "input ", f"logic<{ew}> [{n}]"))
            self.ports.append(("ix", "input ", lg(clog2(n))))
            self.ports.append(("jx", "input ", lg(clog2(ew))))
            self.vals.append(("ix", clog2(n)))
            self.vals.append(("jx", clog2(ew)))
        body = []
        # lets (module level), some sharing one right-hand side at different widths
        for i in range(r.randrange(2, 7)):
            w = self.w()
            if self.pool and r.random() < 0.35:
                e = r.choice(self.pool)
            else:
                e = self.expr(self.vals)
            body.append(f"    let l{i}: logic<{w}> = {e};")
            self.vals.append((f"l{i}", w))
        if has_arr:
            n = int(self.ports[-3][2].split("[")[1].rstrip("]"))
            ew = int(self.ports[-3][2].split("<")[1].split(">")[0])
            body.append(f"    let li: logic<{clog2(n)}> = ix ^ {self.atom(self.vals)};")
            body.append(f"    let lj: logic<{clog2(ew)}> = jx + {self.atom(self.vals)};")
            body.append(f"    let ae: logic<{ew}> = arr[li];")
            self.vals.append(("ae", ew))
            if ew & (ew - 1) == 0:
                body.append("    let ab: logic = arr[ix][lj];")
                self.vals.append(("ab", 1))
        # blocks
        outs = []
        vid = 0
        for bi in range(r.randrange(1, 3)):
            owned = []
            for _ in range(r.randrange(2, 5)):
                w = self.w()
                owned.append((f"v{vid}", w))
                body.insert(0, f"    var v{vid}: logic<{w}>;")
                vid += 1
            blk = ["    always_comb {"]
            for v, w in owned:
                blk.append(f"        {v} = {self.expr(self.vals, 2)};")
            blk += self.stmts(owned, list(self.vals), 0, r.randrange(2, 6), 2)
            blk.append("    }")
            body += blk
            self.vals += owned
            outs += owned
        k = 0
        for v, w in outs:
            self.ports.append((f"o{k}", "output", lg(w)))
            body.append(f"    assign o{k} = {v};")
            k += 1
        for i in range(r.randrange(1, 3)):
            w = self.w()
            self.ports.append((f"o{k}", "output", lg(w)))
            body.append(f"    assign o{k} = {self.expr(self.vals)};")
            k += 1
        return mod(self.name, self.ports, "\n".join(body))


def gen_random(seed=0, n=60):
    rnd = random.Random(seed * 7919 + 99)
    out = []
    for i in range(n):
        name = f"R{seed}_{i}"
        out.append((f"rand::{name}", _RandMod(random.Random(rnd.randrange(1 << 60)), name).build()))
    return out


class _RandSeq(_RandMod):
    """random designs with registers: one clock, one reset, 1-3 registers each driven by its own always_ff
    (if_reset + guarded updates reading inputs, lets and the OLD values of all registers), comb logic on top"""

    def build(self):
        r = self.r
        self.ports += [("clk", "input ", "clock"), ("rst", "input ", "reset")]
        nin = r.randrange(2, 5)
        for i in range(nin):
            w = self.w(small=r.random() < 0.7)
            self.ports.append((f"i{'abcdefg'[i]}", "input ", lg(w)))
            self.vals.append((f"i{'abcdefg'[i]}", w))
        body, decl = [], []
        regs = []
        for k in range(r.randrange(1, 4)):
            w = self.w(small=r.random() < 0.7)
            regs.append((f"r{k}", w))
            decl.append(f"    var r{k}: logic<{w}>;")
        for i in range(r.randrange(1, 4)):
            w = self.w(small=True)
            body.append(f"    let l{i}: logic<{w}> = {self.expr(self.vals + regs)};")
            self.vals.append((f"l{i}", w))
        allv = self.vals + regs
        for (rn, w) in regs:
            others = [v for v in allv if v[0] != rn]
            blk = [f"    always_ff {'(clk, rst) ' if r.random() < 0.5 else ''}{{", "        if_reset {",
                   f"            {rn} = {self.const(w)};", "        } else {"]
            first = r.random()
            if first < 0.4:
                blk.append(f"            {rn} = {rn} {r.choice(['+', '-', '^'])} {self.expr(others, 2)};")
            elif first < 0.7:
                blk.append(f"            if {self.cond(others)} {{")
                blk.append(f"                {rn} = {self.expr(allv, 1)};")
                blk.append("            }")
            else:
                blk.append(f"            {rn} = {self.expr(allv, 1)};")
            for _ in range(r.randrange(0, 3)):
                k = r.random()
                if k < 0.5:
                    blk.append(f"            if {self.cond(others)} {{")
                    if w > 2 and r.random() < 0.3:
                        lo = r.randrange(w - 1)
                        hi = r.randrange(lo, w)
                        blk.append(f"                {rn}[{hi}:{lo}] = {self.expr(others, 2)};")
                    else:
                        blk.append(f"                {rn} = {self.expr(others, 1)};")
                    if r.random() < 0.4:
                        blk.append("            } else {")
                        blk.append(f"                {rn} = {self.expr(others, 2)};")
                    blk.append("            }")
                else:
                    t, tw = r.choice([x for x in others if 2 <= x[1] <= 6] or others)
                    blk.append(f"            case {t} {{")
                    seen = set()
                    for _ in range(r.randrange(2, 5)):
                        cv = r.randrange(1 << min(tw, 6))
                        if cv in seen:
                            continue
                        seen.add(cv)
                        blk.append(f"                {tw}'d{cv}: {rn} = {self.expr(others, 2)};")
                    blk.append("                default: {}")
                    blk.append("            }")
            blk += ["        }", "    }"]
            body += blk
        k = 0
        for (rn, w) in regs:
            self.ports.append((f"o{k}", "output", lg(w)))
            body.append(f"    assign o{k} = {rn};")
            k += 1
        for _ in range(r.randrange(1, 3)):
            w = self.w(small=True)
            self.ports.append((f"o{k}", "output", lg(w)))
            body.append(f"    assign o{k} = {self.expr(allv)};")
            k += 1
        return mod(self.name, self.ports, "\n".join(decl + body))


def gen_random_seq(seed=0, n=32):
    rnd = random.Random(seed * 104729 + 7)
    out = []
    for i in range(n):
        name = f"Q{seed}_{i}"
        out.append((f"rseq::{name}", _RandSeq(random.Random(rnd.randrange(1 << 60)), name).build()))
    return out
