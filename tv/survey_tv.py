import json, os, subprocess, sys, time, collections
sys.path.insert(0, '/verif/tv')
import corpus, miter
W='/verif/.target/tvwork'; os.makedirs(W, exist_ok=True)
items=corpus.corpus(W+'/snips')
print(len(items),'designs')
stats=collections.Counter(); reasons=collections.Counter(); bad=[]
t0=time.time()
import sys as _s
for label,path in items:
    print('..',label, round(time.time()-t0), file=_s.stderr, flush=True)
    out=os.path.join(W,'dump.json')
    env=dict(os.environ, TVDUMP_FEW_CONFIGS='1')
    try:
        p=subprocess.run(['/verif/.target/tvdump/debug/tvdump','dump',path,out],env=env,capture_output=True,text=True,timeout=120)
    except subprocess.TimeoutExpired:
        stats['dump_timeout']+=1; continue
    if p.returncode!=0:
        stats['dump_crash']+=1; bad.append((label,'crash',p.stderr[-300:])); continue
    d=json.load(open(out))
    if 'error' in d: stats['front_end_error']+=1; continue
    for mod in d['netlists']['modules']:
        cfgs=[c for c in mod['configs'] if c['ok']]
        if not cfgs: stats['synth_rejects']+=1; continue
        if len(cfgs[0]['netlist']['cells'])>20000: stats['too_big']+=1; continue
        rm=next((m for m in d['rtl']['modules'] if m['top']==mod['top']),None)
        if not rm or not rm['supported']:
            stats['rtl_unsupported']+=1; reasons[(rm or {}).get('reason','?')[:60]]+=1
        else:
            try:
                r=miter.netlist_vs_rtl(cfgs[0]['netlist'], rm['rtl'], timeout_ms=10000)
                stats['rtl_'+r['verdict']]+=1
                if r['verdict'] in ('differs','inconclusive'): bad.append((label,mod['top'],{k:v for k,v in r.items() if k!='stimulus'}))
            except miter.Unsupported as e:
                stats['rtl_miter_unsupported']+=1; reasons['miter: '+str(e)[:60]]+=1
            except Exception as e:
                stats['rtl_miter_error']+=1; bad.append((label,mod['top'],repr(e)[:300]))
        for c in cfgs[1:]:
            try:
                r=miter.netlist_vs_netlist(cfgs[0]['netlist'], c['netlist'], timeout_ms=10000)
                stats['cfg_'+r['verdict']]+=1
                if r['verdict'] not in ('equal_inductive',): bad.append((label,mod['top'],c['cfg'],{k:v for k,v in r.items() if k not in('state','inputs')}))
            except miter.Unsupported as e:
                stats['cfg_unsupported']+=1
            except Exception as e:
                stats['cfg_error']+=1; bad.append((label,mod['top'],'cfg',repr(e)[:300]))
print(time.time()-t0,'s'); print(dict(stats))
for k,v in reasons.most_common(40): print(v,k)
for b in bad[:60]: print(b)
