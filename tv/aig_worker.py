#!/usr/bin/env python3
"""C21 (b): the real aig passes on one corpus design (dumped by tvaig); miters
   a1 == a2 (rewrite), g == g2 (rewrite + technology mapping), g == g3 (AIG round trip)."""
import json
import os
import subprocess
import sys
import time

import z3

sys.path.insert(0, os.path.dirname(os.path.abspath(__file__)))
import miter  # noqa: E402

TVAIG = "/verif/.target/tvaig/debug/tvaig"


def aig_sinks(a):
    val = {}
    nodes = a["nodes"]

    def edge(e):
        v = val[e[0]]
        return z3.Not(v) if e[1] else v
    for i, n in enumerate(nodes):
        if n["k"] == "const":
            val[i] = z3.BoolVal(False)
        elif n["k"] == "input":
            val[i] = z3.Bool(f"net{n['net']}")
        else:
            if n["a"][0] >= i or n["b"][0] >= i:
                raise miter.Unsupported("AIG not in topological order")
            val[i] = z3.And(edge(n["a"]), edge(n["b"]))
    return [(s["target"], edge(s["e"])) for s in a["sinks"]]


def aig_equal(a1, a2, timeout_ms):
    s1, s2 = aig_sinks(a1), aig_sinks(a2)
    if [t for t, _ in s1] != [t for t, _ in s2]:
        return dict(verdict="differs", kind="structure", detail="sink lists differ", queries=0)
    if not s1:
        return dict(verdict="equal_inductive", obligations=0, queries=0)
    s = z3.Solver()
    s.set("timeout", timeout_ms)
    s.add(z3.Or(*[x != y for (_, x), (_, y) in zip(s1, s2)]))
    r = s.check()
    if r == z3.unsat:
        return dict(verdict="equal_inductive", obligations=len(s1), queries=1)
    if r == z3.unknown:
        return dict(verdict="inconclusive", why="solver timeout", queries=1)
    m = s.model()
    bad = [t for (t, x), (_, y) in zip(s1, s2) if z3.is_true(m.eval(x != y, model_completion=True))][:5]
    inputs = {str(d): bool(m[d]) for d in m.decls()}
    return dict(verdict="differs", kind="aig", sinks=bad, inputs=inputs, queries=1)


def main():
    label, path, tier, work = sys.argv[1:5]
    quick = tier == "quick"
    out = os.path.join(work, f"aig_{os.getpid()}.json")
    res = dict(label=label, path=path, modules=[])
    try:
        p = subprocess.run([TVAIG, path, out], capture_output=True, text=True, timeout=120 if quick else 600)
    except subprocess.TimeoutExpired:
        res["error"] = "tvaig timeout"
        print(json.dumps(res))
        return
    if p.returncode != 0:
        res["error"] = "tvaig crashed: " + p.stderr[-300:]
        print(json.dumps(res))
        return
    d = json.load(open(out))
    os.remove(out)
    if "error" in d:
        res["error"] = "front end: " + d["error"][:200]
        print(json.dumps(res))
        return
    tmo = 15000 if quick else 120000
    for mod in d["modules"]:
        m = dict(top=mod["top"])
        if not mod["ok"]:
            m["skip"] = mod["error"][:120]
            res["modules"].append(m)
            continue
        x = mod["dump"]
        m["cells"] = len(x["g"]["cells"])
        m["ands"] = sum(1 for n in x["a1"]["nodes"] if n["k"] == "and")
        m["ands_rewritten"] = sum(1 for n in x["a2"]["nodes"] if n["k"] == "and")
        if m["cells"] > (20000 if quick else 200000):
            m["skip"] = "too many cells"
            res["modules"].append(m)
            continue
        t0 = time.time()
        try:
            m["rewrite"] = aig_equal(x["a1"], x["a2"], tmo)
        except miter.Unsupported as e:
            m["rewrite"] = dict(verdict="miter_unsupported", why=str(e)[:160])
        for key, tag in (("g2", "rewrite_techmap"), ("g3", "roundtrip")):
            try:
                r = miter.netlist_vs_netlist(x["g"], x[key], timeout_ms=tmo)
                m[tag] = r
            except miter.Unsupported as e:
                m[tag] = dict(verdict="miter_unsupported", why=str(e)[:160])
        m["secs"] = round(time.time() - t0, 2)
        res["modules"].append(m)
    print(json.dumps(res))


if __name__ == "__main__":
    main()
