#!/usr/bin/env python3
"""C18 (JIT): CLIF the real Cranelift front end emits for one comb-only design  ==  RTL terms."""
import json
import os
import subprocess
import sys
import time

sys.path.insert(0, os.path.dirname(os.path.abspath(__file__)))
import clif  # noqa: E402

TVDUMP = "/verif/.target/tvdump/debug/tvdump"


def main():
    label, path, tier, work = sys.argv[1:5]
    res = dict(label=label, path=path, modules=[])
    rj = os.path.join(work, f"clifrtl_{os.getpid()}.json")
    p = subprocess.run([TVDUMP, "rtl", path, rj], capture_output=True, text=True, timeout=120)
    if p.returncode != 0:
        res["error"] = "tvdump rtl failed"
        print(json.dumps(res))
        return
    d = json.load(open(rj))
    os.remove(rj)
    if "error" in d:
        res["error"] = "front end: " + d["error"][:160]
        print(json.dumps(res))
        return
    for rm in d["modules"]:
        m = dict(top=rm["top"])
        if not rm["supported"]:
            m["verdict"] = "rtl_unsupported"
            m["why"] = rm["reason"][:100]
            res["modules"].append(m)
            continue
        if rm["rtl"]["states"]:
            m["verdict"] = "unsupported"
            m["why"] = "sequential design (comb-only subset)"
            res["modules"].append(m)
            continue
        t0 = time.time()
        try:
            p = subprocess.run([TVDUMP, "clif", path, rm["top"]], capture_output=True, text=True, timeout=120)
            out = p.stdout
            i = out.rfind("LAYOUT ")
            if p.returncode != 0 or i < 0:
                m["verdict"] = "unsupported"
                m["why"] = "simulator IR/JIT build failed: " + p.stderr[-120:]
                res["modules"].append(m)
                continue
            layout = json.loads(out[i + 7:])
            r = clif.check_design(out[:i], layout, rm["rtl"], timeout_ms=20000 if tier == "quick" else 120000)
            m.update(r)
        except clif.Unsupported as e:
            m["verdict"] = "unsupported"
            m["why"] = str(e)[:120]
        except subprocess.TimeoutExpired:
            m["verdict"] = "unsupported"
            m["why"] = "tvdump clif timeout"
        m["secs"] = round(time.time() - t0, 2)
        res["modules"].append(m)
    print(json.dumps(res))


if __name__ == "__main__":
    main()
