#!/usr/bin/env python3
"""C18 (JIT): CLIF the real Cranelift front end emits for one comb-only design  ==  RTL terms."""
import json
import os
import subprocess
import sys
import time

sys.path.insert(0, os.path.dirname(os.path.abspath(__file__)))
import clif  # noqa: E402

TVDUMP = "/verif/.target/tvdump/debug/tvdump"


def one_config(path, rm, tier, env, many=False):
    import hashlib
    m = {}
    try:
        e = dict(os.environ)
        e.update(env)
        p = subprocess.run([TVDUMP, "clif", path, rm["top"]], capture_output=True, text=True, timeout=120, env=e)
        out = p.stdout
        i = out.rfind("LAYOUT ")
        if p.returncode != 0 or i < 0:
            return dict(verdict="unsupported", why="simulator IR/JIT build failed: " + p.stderr[-120:])
        layout = json.loads(out[i + 7:])
        m["ir_hash"] = hashlib.md5(out[:i].encode()).hexdigest()[:12]
        m.update(clif.check_design(out[:i], layout, rm["rtl"], timeout_ms=20000 if tier == "quick" else (40000 if many else 120000)))
    except clif.Unsupported as e:
        m.update(verdict="unsupported", why=str(e)[:120])
    except clif.z3.Z3Exception as e:
        # the emitted IR does not type-check in the encoder (e.g. `select` over an i64 and an i128 arm): the replay
        # decides whether the real engine survives it
        m.update(verdict="illtyped", why=str(e)[:160])
    except subprocess.TimeoutExpired:
        m.update(verdict="unsupported", why="tvdump clif timeout")
    return m


def main():
    label, path, tier, work = sys.argv[1:5]
    configs = json.loads(sys.argv[5]) if len(sys.argv) > 5 else [["default", {}]]
    res = dict(label=label, path=path, modules=[])
    rj = os.path.join(work, f"clifrtl_{os.getpid()}.json")
    p = subprocess.run([TVDUMP, "rtl", path, rj], capture_output=True, text=True, timeout=120)
    if p.returncode != 0:
        res["error"] = "tvdump rtl failed"
        print(json.dumps(res))
        return
    d = json.load(open(rj))
    os.remove(rj)
    if "error" in d:
        res["error"] = "front end: " + d["error"][:160]
        print(json.dumps(res))
        return
    tops = [rm["top"] for rm in d["modules"]]
    for rm in d["modules"]:
        m = dict(top=rm["top"])
        if tops.count(rm["top"]) > 1:
            # one module elaborated with several parameter sets: `tvdump clif <top>` builds only one of them
            m["verdict"] = "unsupported"
            m["why"] = "several elaborations of this module in the file (parameter overrides)"
            res["modules"].append(m)
            continue
        if not rm["supported"]:
            m["verdict"] = "rtl_unsupported"
            m["why"] = rm["reason"][:100]
            res["modules"].append(m)
            continue
        if rm["rtl"]["states"]:
            m["verdict"] = "unsupported"
            m["why"] = "sequential design (comb-only subset)"
            res["modules"].append(m)
            continue
        t0 = time.time()
        per = []
        for (cname, env) in configs:
            r = one_config(path, rm, tier, env, many=len(configs) > 1)
            r["config"] = cname
            per.append(r)
            if r["verdict"] == "differs":
                break
        if len(configs) == 1:
            m.update({k: v for k, v in per[0].items() if k != "config"})
        else:
            bad = next((r for r in per if r["verdict"] == "differs"), None)
            if bad:
                m.update(bad)
            elif all(r["verdict"] == "equal" for r in per):
                m.update(verdict="equal", queries=sum(r.get("queries", 0) for r in per),
                         obligations=per[0].get("obligations"), functions=[r.get("functions") for r in per],
                         configs=len(per),
                         distinct_from_default=[r["config"].split(":")[0] for r in per[1:]
                                                if r.get("ir_hash") != per[0].get("ir_hash")])
            else:
                u = next(r for r in per if r["verdict"] != "equal")
                m.update(verdict=u["verdict"], why=f"[{u['config']}] " + str(u.get("why", ""))[:100],
                         configs_equal=sum(1 for r in per if r["verdict"] == "equal"))
        m["secs"] = round(time.time() - t0, 2)
        res["modules"].append(m)
    print(json.dumps(res))


if __name__ == "__main__":
    main()
