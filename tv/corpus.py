#!/usr/bin/env python3
"""Corpus for the translation-validation checks: every design is synthesized by
the REAL pipeline at run time.

  * /repo/testcases/veryl/*.veryl            (the repository's own test designs)
  * the `r#"..."#` design snippets embedded in /repo/crates/synthesizer/tests/integration.rs
    (extracted textually on every run, so new tests extend the corpus)
  * /verif/tv/corpus/*.veryl                  (designs written to hit arithmetic, shifts, case decode,
                                               counters, register files / RAM inference)
"""
import glob
import hashlib
import os
import re

REPO = "/repo"
HERE = os.path.dirname(os.path.abspath(__file__))


def integration_snippets():
    p = os.path.join(REPO, "crates/synthesizer/tests/integration.rs")
    try:
        txt = open(p).read()
    except OSError:
        return []
    out = []
    for m in re.finditer(r'fn (\w+)\(\)\s*\{(.*?)\n\}\n', txt, re.S):
        name, body = m.group(1), m.group(2)
        for k, s in enumerate(re.finditer(r'r#"(.*?)"#', body, re.S)):
            code = s.group(1)
            if "module" in code:
                out.append((f"integration::{name}#{k}", code))
    return out


def corpus(workdir, seed=0):
    """yields (label, path). Snippets and generated designs are materialised under workdir."""
    import gen_corpus
    os.makedirs(workdir, exist_ok=True)
    items = []
    nrand = int(os.environ.get("VERIF_NRAND", "48"))
    for label, code in (gen_corpus.gen(seed) + gen_corpus.gen_opt(seed) + gen_corpus.gen_random(seed, nrand)
                        + gen_corpus.gen_random_seq(seed, max(8, nrand // 2))):
        h = hashlib.sha1(code.encode()).hexdigest()[:10]
        p = os.path.join(workdir, f"gen_{re.sub(r'[^A-Za-z0-9_]', '_', label)}_{h}.veryl")
        if not os.path.exists(p):
            open(p, "w").write(code)
        items.append((label, p))
    for f in sorted(glob.glob(os.path.join(HERE, "corpus", "*.veryl"))):
        items.append(("verif::" + os.path.basename(f), f))
    for label, code in integration_snippets():
        h = hashlib.sha1(code.encode()).hexdigest()[:10]
        p = os.path.join(workdir, f"snip_{re.sub(r'[^A-Za-z0-9_]', '_', label)}_{h}.veryl")
        if not os.path.exists(p):
            open(p, "w").write(code)
        items.append((label, p))
    for f in sorted(glob.glob(os.path.join(REPO, "testcases", "veryl", "*.veryl"))):
        items.append(("testcases::" + os.path.basename(f), f))
    return items
