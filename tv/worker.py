#!/usr/bin/env python3
"""One corpus design: dump with the real pipeline, run every miter, print one JSON line."""
import json
import os
import subprocess
import sys
import time

sys.path.insert(0, os.path.dirname(os.path.abspath(__file__)))
import miter  # noqa: E402

TVDUMP = "/verif/.target/tvdump/debug/tvdump"


def main():
    label, path, tier, work = sys.argv[1:5]
    quick = tier == "quick"
    t0 = time.time()
    out = os.path.join(work, f"dump_{os.getpid()}.json")
    env = dict(os.environ)
    if quick:
        env["TVDUMP_FEW_CONFIGS"] = "1"
    res = dict(label=label, path=path, modules=[], secs=0)
    try:
        p = subprocess.run([TVDUMP, "dump", path, out], env=env, capture_output=True, text=True,
                           timeout=120 if quick else 600)
    except subprocess.TimeoutExpired:
        res["error"] = "tvdump timeout"
        print(json.dumps(res))
        return
    if p.returncode != 0:
        res["error"] = "tvdump crashed: " + p.stderr[-300:]
        print(json.dumps(res))
        return
    d = json.load(open(out))
    os.remove(out)
    if "error" in d:
        res["error"] = "front end: " + d["error"][:200]
        print(json.dumps(res))
        return
    tmo = 15000 if quick else 120000
    max_cells = 20000 if quick else 200000
    for mod in d["netlists"]["modules"]:
        m = dict(top=mod["top"], rtl=None, cfg=[], cells=None)
        cfgs = [c for c in mod["configs"] if c["ok"]]
        if not cfgs:
            m["rtl"] = dict(verdict="rejected_by_synthesizer",
                            why=(mod["configs"][0].get("error") or "")[:120] if mod["configs"] else "")
            res["modules"].append(m)
            continue
        base = cfgs[0]
        m["cells"] = len(base["netlist"]["cells"])
        m["ffs"] = len(base["netlist"]["ffs"])
        m["rams"] = len(base["netlist"]["rams"])
        if m["cells"] > max_cells:
            m["rtl"] = dict(verdict="skipped", why=f"{m['cells']} cells > {max_cells}")
            res["modules"].append(m)
            continue
        rm = next((x for x in d["rtl"]["modules"] if x["top"] == mod["top"]), None)
        if not rm or not rm["supported"]:
            m["rtl"] = dict(verdict="rtl_unsupported", why=(rm or {}).get("reason", "?")[:120])
        else:
            try:
                r = miter.netlist_vs_rtl(base["netlist"], rm["rtl"], timeout_ms=tmo, bmc_k=3 if quick else 6)
                r["cfg"] = base["cfg"]
                m["rtl"] = r
            except miter.Unsupported as e:
                m["rtl"] = dict(verdict="miter_unsupported", why=str(e)[:160])
        for c in cfgs[1:]:
            try:
                r = miter.netlist_vs_netlist(base["netlist"], c["netlist"], timeout_ms=tmo)
            except miter.Unsupported as e:
                r = dict(verdict="miter_unsupported", why=str(e)[:160])
            r["cfg"] = c["cfg"]
            r.pop("state", None)
            if r["verdict"] == "differs_from_some_state" and rm and rm["supported"]:
                # the one-step difference may start from an unreachable state: decide reachable
                # behaviour by comparing THIS configuration's netlist with the RTL terms
                try:
                    r2 = miter.netlist_vs_rtl(c["netlist"], rm["rtl"], timeout_ms=tmo, bmc_k=3 if quick else 6)
                    r2["cfg"] = c["cfg"]
                    r["vs_rtl"] = r2
                except miter.Unsupported as e:
                    r["vs_rtl"] = dict(verdict="miter_unsupported", why=str(e)[:160])
            m["cfg"].append(r)
        res["modules"].append(m)
    res["secs"] = round(time.time() - t0, 1)
    print(json.dumps(res))


if __name__ == "__main__":
    main()
